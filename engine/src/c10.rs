//! C10 — NTT and Lagrange-basis polynomial routines equal their textbook definitions (hook H2).

use crate::harness::*;
use crate::util::*;
use num_bigint::BigUint;
use prio::field::{Field128, Field64, FieldElement, FieldPrio2, NttFriendlyFieldElement};
use prio::verif_hooks::poly as h;
use proptest::prelude::*;
use serde::{Deserialize, Serialize};

pub struct C10;

#[derive(Clone, Copy, Debug, Serialize, Deserialize, PartialEq, Eq)]
pub enum Fld {
    F32,
    F64,
    F128,
}

#[derive(Clone, Copy, Debug, Serialize, Deserialize, PartialEq, Eq)]
pub enum Variant {
    Ntt,
    SetS,
    Inv,
}

#[derive(Clone, Debug, Serialize, Deserialize)]
pub enum Case {
    /// basis vectors e_j for j in [j0, j0+jn): every entry of the column
    Basis { field: Fld, log: u8, variant: Variant, j0: u32, jn: u32 },
    /// large sizes: generated basis vectors and a dense random vector, 64 generated output indices
    Sparse { field: Fld, log: u8, variant: Variant, seed: u64 },
    /// dense random input (possibly shorter than size): all outputs by Horner for small sizes,
    /// round trip ntt_inv∘ntt
    Dense { field: Fld, log: u8, in_len: u32, seed: u64 },
    /// poly_eval_lagrange_batched at every node, 0, ±1 and random points
    LagrangeEval { field: Fld, log: u8, batch: u8, seed: u64 },
    Extend { field: Fld, log: u8, num_values: u32, seed: u64 },
    Double { field: Fld, log: u8, seed: u64 },
    MulLagrange { field: Fld, log: u8, seed: u64 },
    RootPowers { field: Fld, log: u8 },
    RangeCheck { field: Fld, start: u16, end: u16 },
    Errors { field: Fld, seed: u64 },
}

fn rnd<F: FieldBig>(seed: u64, i: u64) -> F {
    F::from_big(&BigUint::from_bytes_le(&expand(seed, i, 40)))
}

fn fpow<F: FieldElement>(mut b: F, mut e: u64) -> F {
    let mut r = F::one();
    while e > 0 {
        if e & 1 == 1 {
            r *= b;
        }
        b *= b;
        e >>= 1;
    }
    r
}

fn horner<F: FieldElement>(c: &[F], x: F) -> F {
    let mut r = F::zero();
    for k in c.iter().rev() {
        r = r * x + *k;
    }
    r
}

/// Naive O(n^2) coefficients of the polynomial of degree < n with p(ω^i) = v[i].
fn naive_interpolate<F: NttFriendlyFieldElement>(v: &[F]) -> Vec<F> {
    let n = v.len();
    let log = n.trailing_zeros() as usize;
    let w = F::root(log).unwrap();
    let winv = w.inv();
    let ninv = fpow(F::half(), log as u64);
    (0..n)
        .map(|k| {
            let step = fpow(winv, k as u64);
            let mut acc = F::zero();
            let mut cur = F::one();
            for x in v {
                acc += *x * cur;
                cur *= step;
            }
            acc * ninv
        })
        .collect()
}

/// Lagrange interpolation through (x_i, y_i), evaluated at x (O(m^2)).
fn lagrange_at<F: FieldElement>(xs: &[F], ys: &[F], x: F) -> F {
    let mut acc = F::zero();
    for i in 0..xs.len() {
        let mut num = F::one();
        let mut den = F::one();
        for j in 0..xs.len() {
            if i != j {
                num *= x - xs[j];
                den *= xs[i] - xs[j];
            }
        }
        acc += ys[i] * num * den.inv();
    }
    acc
}

fn run_variant<F: NttFriendlyFieldElement>(variant: Variant, outp: &mut [F], inp: &[F], size: usize) -> Result<(), h::NttError> {
    match variant {
        Variant::Ntt => h::ntt(outp, inp, size),
        Variant::SetS => h::ntt_set_s(outp, inp, size),
        Variant::Inv => h::ntt_inv(outp, inp, size),
    }
}

/// Evaluation point i of the transform: ω^i, s·ω^i or ω^{-i} (the inverse also scales by 1/n).
fn point<F: NttFriendlyFieldElement>(variant: Variant, log: usize, i: u64) -> F {
    let w = F::root(log).unwrap();
    match variant {
        Variant::Ntt => fpow(w, i),
        Variant::SetS => F::root(log + 1).unwrap() * fpow(w, i),
        Variant::Inv => fpow(w.inv(), i),
    }
}

fn run_generic<F: NttFriendlyFieldElement + FieldBig>(case: &Case, obs: &mut Obs) {
    let name = F::NAME;
    let mut n_eval = 0u64;
    macro_rules! call {
        ($what:expr, $e:expr) => {
            match guard(|| $e) {
                Ok(r) => r,
                Err(pn) => {
                    obs.fail(format!("{name}-{}-{}", $what, panic_sig(&pn)), format!("{name}: {} panicked: {pn}", $what));
                    return;
                }
            }
        };
    }
    match case {
        Case::Basis { log, variant, j0, jn, .. } => {
            let log = *log as usize;
            let n = 1usize << log;
            let scale = if *variant == Variant::Inv { fpow(F::half(), log as u64) } else { F::one() };
            for j in *j0 as usize..((*j0 + *jn) as usize).min(n) {
                let mut inp = vec![F::zero(); n];
                inp[j] = F::one();
                let mut out = vec![F::zero(); n];
                if let Err(e) = call!("ntt", run_variant(*variant, &mut out, &inp, n)) {
                    obs.fail(format!("{name}-{variant:?}-err"), format!("{name}: {variant:?} of size {n} failed: {e}"));
                    return;
                }
                // column j: entry i = (point_i)^j (· 1/n for the inverse)
                for i in 0..n {
                    let want = fpow(point::<F>(*variant, log, i as u64), j as u64) * scale;
                    n_eval += 1;
                    if out[i] != want {
                        obs.fail(format!("{name}-{variant:?}-entry"), format!("{name}: {variant:?} size {n}: entry ({i},{j}) of the matrix is {} expected {}", out[i].to_big(), want.to_big()));
                        return;
                    }
                }
            }
        }
        Case::Sparse { log, variant, seed, .. } => {
            let log = *log as usize;
            let n = 1usize << log;
            let scale = if *variant == Variant::Inv { fpow(F::half(), log as u64) } else { F::one() };
            // a few basis vectors
            for t in 0..3u64 {
                let j = (u64::from_le_bytes(expand_arr::<8>(*seed, t)) % n as u64) as usize;
                let mut inp = vec![F::zero(); n];
                inp[j] = F::one();
                let mut out = vec![F::zero(); n];
                if let Err(e) = call!("ntt", run_variant(*variant, &mut out, &inp, n)) {
                    obs.fail(format!("{name}-{variant:?}-err"), format!("{name}: {variant:?} of size {n} failed: {e}"));
                    return;
                }
                for u in 0..64u64 {
                    let i = (u64::from_le_bytes(expand_arr::<8>(*seed, 100 + t * 64 + u)) % n as u64) as usize;
                    let want = fpow(point::<F>(*variant, log, i as u64), j as u64) * scale;
                    n_eval += 1;
                    if out[i] != want {
                        obs.fail(format!("{name}-{variant:?}-entry"), format!("{name}: {variant:?} size {n}: entry ({i},{j}) is {} expected {}", out[i].to_big(), want.to_big()));
                        return;
                    }
                }
            }
            // a dense random vector, possibly shorter than n, checked by Horner at 16 indices
            let in_len = 1 + (u64::from_le_bytes(expand_arr::<8>(*seed, 7777)) % n as u64) as usize;
            let inp: Vec<F> = (0..in_len).map(|i| rnd(*seed, 10_000 + i as u64)).collect();
            let mut out = vec![F::zero(); n];
            if let Err(e) = call!("ntt", run_variant(*variant, &mut out, &inp, n)) {
                obs.fail(format!("{name}-{variant:?}-err"), format!("{name}: {variant:?} of size {n} failed: {e}"));
                return;
            }
            for u in 0..16u64 {
                let i = (u64::from_le_bytes(expand_arr::<8>(*seed, 9000 + u)) % n as u64) as usize;
                let want = horner(&inp, point::<F>(*variant, log, i as u64)) * scale;
                n_eval += 1;
                if out[i] != want {
                    obs.fail(format!("{name}-{variant:?}-dense"), format!("{name}: {variant:?} size {n}, input length {in_len}: output {i} is {} expected {}", out[i].to_big(), want.to_big()));
                    return;
                }
            }
        }
        Case::Dense { log, in_len, seed, .. } => {
            let log = *log as usize;
            let n = 1usize << log;
            let in_len = (*in_len as usize).clamp(1, n);
            let inp: Vec<F> = (0..in_len).map(|i| rnd(*seed, i as u64)).collect();
            for variant in [Variant::Ntt, Variant::SetS, Variant::Inv] {
                let scale = if variant == Variant::Inv { fpow(F::half(), log as u64) } else { F::one() };
                // output buffer longer than size: the tail must stay untouched
                let mut out = vec![F::one(); n + 2];
                if let Err(e) = call!("ntt", run_variant(variant, &mut out, &inp, n)) {
                    obs.fail(format!("{name}-{variant:?}-err"), format!("{name}: {variant:?} of size {n} failed: {e}"));
                    return;
                }
                for i in 0..n {
                    let want = horner(&inp, point::<F>(variant, log, i as u64)) * scale;
                    n_eval += 1;
                    if out[i] != want {
                        obs.fail(format!("{name}-{variant:?}-dense"), format!("{name}: {variant:?} size {n}, input length {in_len}: output {i} is {} expected {}", out[i].to_big(), want.to_big()));
                        return;
                    }
                }
                if out[n] != F::one() || out[n + 1] != F::one() {
                    obs.fail(format!("{name}-{variant:?}-writes-beyond-size"), format!("{name}: {variant:?} wrote beyond `size` elements of the output buffer"));
                    return;
                }
            }
            // the inverse undoes the forward transform
            let full: Vec<F> = (0..n).map(|i| rnd(*seed, 50_000 + i as u64)).collect();
            let mut tmp = vec![F::zero(); n];
            let mut back = vec![F::zero(); n];
            let r1 = call!("ntt", h::ntt(&mut tmp, &full, n));
            let r2 = call!("ntt_inv", h::ntt_inv(&mut back, &tmp, n));
            n_eval += 1;
            if r1.is_err() || r2.is_err() || back != full {
                obs.fail(format!("{name}-inverse-roundtrip"), format!("{name}: ntt_inv(ntt(v)) != v for size {n}"));
                return;
            }
        }
        Case::LagrangeEval { log, batch, seed, .. } => {
            let log = *log as usize;
            let n = 1usize << log;
            let polys: Vec<Vec<F>> = (0..*batch as u64).map(|b| (0..n).map(|i| if b == 1 && i % 3 == 0 { F::zero() } else { rnd(*seed, b * 100_000 + i as u64) }).collect()).collect();
            let coeffs: Vec<Vec<F>> = polys.iter().map(|p| naive_interpolate(p)).collect();
            let w = F::root(log).unwrap();
            let mut points: Vec<(F, String)> = (0..n).map(|k| (fpow(w, k as u64), format!("node ω^{k}"))).collect();
            points.push((F::zero(), "0".into()));
            points.push((F::one(), "1".into()));
            points.push((-F::one(), "-1".into()));
            points.push((F::root(log + 1).unwrap_or(F::one() + F::one()), "next-order root".into()));
            for t in 0..4u64 {
                points.push((rnd(*seed, 900_000 + t), "random".into()));
            }
            for (x, what) in points {
                let got = call!("poly_eval_lagrange_batched", h::poly_eval_lagrange_batched(&polys, x));
                if got.len() != polys.len() {
                    obs.fail(format!("{name}-lagrange-eval-len"), "wrong number of results");
                    return;
                }
                for (b, g) in got.iter().enumerate() {
                    let want = horner(&coeffs[b], x);
                    n_eval += 1;
                    if *g != want {
                        obs.fail(format!("{name}-lagrange-eval"), format!("{name}: poly_eval_lagrange_batched size {n} polynomial {b} at {what} = {} expected {}", g.to_big(), want.to_big()));
                        return;
                    }
                }
                if what.starts_with("node") {
                    obs.label("lagrange-eval-at-node");
                }
            }
        }
        Case::Extend { log, num_values, seed, .. } => {
            let log = *log as usize;
            let n = 1usize << log;
            let m = (*num_values as usize).min(n);
            let w = F::root(log).unwrap();
            let nodes: Vec<F> = (0..n).map(|k| fpow(w, k as u64)).collect();
            let vals: Vec<F> = (0..m).map(|i| rnd(*seed, i as u64)).collect();
            let mut buf = vals.clone();
            // the rest of the buffer is garbage that must be overwritten
            buf.extend((m..n).map(|i| rnd::<F>(*seed, 7_000_000 + i as u64)));
            call!("extend_values_to_power_of_2", h::extend_values_to_power_of_2(&mut buf, m));
            for k in 0..n {
                let want = if k < m { vals[k] } else { lagrange_at(&nodes[..m], &vals, nodes[k]) };
                n_eval += 1;
                if buf[k] != want {
                    obs.fail(format!("{name}-extend-values"), format!("{name}: extend_values_to_power_of_2(n = {n}, num_values = {m}): value {k} is {} expected {}", buf[k].to_big(), want.to_big()));
                    return;
                }
            }
            if m > 0 && m < n {
                obs.label("extend-partial-length");
            }
        }
        Case::Double { log, seed, .. } => {
            let log = *log as usize;
            let n = 1usize << log;
            let vals: Vec<F> = (0..n).map(|i| rnd(*seed, i as u64)).collect();
            let coeffs = naive_interpolate(&vals);
            let mut out = vec![F::zero(); 2 * n];
            if let Err(e) = call!("double_evaluations", h::double_evaluations(&mut out, &vals)) {
                obs.fail(format!("{name}-double-err"), format!("{name}: double_evaluations failed for n = {n}: {e}"));
                return;
            }
            let w2 = F::root(log + 1).unwrap();
            for k in 0..2 * n {
                let want = horner(&coeffs, fpow(w2, k as u64));
                n_eval += 1;
                if out[k] != want {
                    obs.fail(format!("{name}-double-evaluations"), format!("{name}: double_evaluations n = {n}: value {k} is {} expected {}", out[k].to_big(), want.to_big()));
                    return;
                }
            }
        }
        Case::MulLagrange { log, seed, .. } => {
            let log = *log as usize;
            let n = 1usize << log;
            let p: Vec<F> = (0..n).map(|i| rnd(*seed, i as u64)).collect();
            let q: Vec<F> = (0..n).map(|i| rnd(*seed, 1_000_000 + i as u64)).collect();
            let (cp, cq) = (naive_interpolate(&p), naive_interpolate(&q));
            let prod = h::poly_mul_monomial(&cp, &cq);
            let mut out = vec![F::zero(); 2 * n];
            if let Err(e) = call!("poly_mul_lagrange", h::poly_mul_lagrange(&mut out, &p, &q)) {
                obs.fail(format!("{name}-mul-lagrange-err"), format!("{name}: poly_mul_lagrange failed for n = {n}: {e}"));
                return;
            }
            let w2 = F::root(log + 1).unwrap();
            for k in 0..2 * n {
                let x = fpow(w2, k as u64);
                let want = horner(&cp, x) * horner(&cq, x);
                n_eval += 1;
                if out[k] != want || horner(&prod, x) != want {
                    obs.fail(format!("{name}-mul-lagrange"), format!("{name}: poly_mul_lagrange n = {n}: value {k} is {} expected {}", out[k].to_big(), want.to_big()));
                    return;
                }
            }
        }
        Case::RootPowers { log, .. } => {
            let log = *log as usize;
            let n = 1usize << log;
            let got = call!("nth_root_powers", h::nth_root_powers::<F>(n));
            let w = F::root(log).unwrap();
            let mut cur = F::one();
            if got.len() != n {
                obs.fail(format!("{name}-root-powers-len"), "wrong length");
                return;
            }
            for (i, g) in got.iter().enumerate() {
                n_eval += 1;
                if *g != cur {
                    obs.fail(format!("{name}-root-powers"), format!("{name}: nth_root_powers({n})[{i}] = {} expected {}", g.to_big(), cur.to_big()));
                    return;
                }
                cur *= w;
            }
        }
        Case::RangeCheck { start, end, .. } => {
            let (start, end) = (*start as usize, *end as usize);
            let poly = call!("poly_range_check", h::poly_range_check::<F>(start, end));
            if h::poly_deg(&poly) != end.saturating_sub(start) {
                obs.fail(format!("{name}-range-check-degree"), format!("{name}: poly_range_check({start},{end}) has degree {}", h::poly_deg(&poly)));
                return;
            }
            for x in start.saturating_sub(3)..end + 4 {
                let v = h::poly_eval_monomial(&poly, F::from_u128(x as u128));
                n_eval += 1;
                let inside = x >= start && x < end;
                if (v == F::zero()) != inside {
                    obs.fail(format!("{name}-range-check"), format!("{name}: poly_range_check({start},{end}) at {x} is {} (inside = {inside})", v.to_big()));
                    return;
                }
            }
        }
        Case::Errors { seed, .. } => {
            let inp: Vec<F> = (0..8).map(|i| rnd(*seed, i)).collect();
            let mut out = vec![F::zero(); 16];
            let bad_sizes: Vec<usize> = vec![3, 5, 6, 7, 9, 12, 15, (1 << 20) + 1, 1 << 21, (1 << 21) - 1, usize::MAX, usize::MAX / 2 + 1, 1 << 40];
            for variant in [Variant::Ntt, Variant::SetS, Variant::Inv] {
                for s in &bad_sizes {
                    n_eval += 1;
                    match call!("ntt(bad size)", run_variant(variant, &mut out, &inp, *s)) {
                        Err(_) => {}
                        Ok(()) => {
                            obs.fail(format!("{name}-{variant:?}-bad-size-accepted"), format!("{name}: {variant:?} accepted size {s}"));
                            return;
                        }
                    }
                }
                // output buffer too short
                for (s, outlen) in [(16usize, 15usize), (8, 7), (2, 1), (1, 0), (4, 0)] {
                    let mut o = vec![F::zero(); outlen];
                    n_eval += 1;
                    match call!("ntt(short output)", run_variant(variant, &mut o, &inp, s)) {
                        Err(_) => {}
                        Ok(()) => {
                            obs.fail(format!("{name}-{variant:?}-short-output-accepted"), format!("{name}: {variant:?} accepted size {s} with an output buffer of {outlen}"));
                            return;
                        }
                    }
                }
            }
            // set_s is limited to 2^19 (it needs the next-order root)
            {
                let mut big = vec![F::zero(); 1 << 20];
                n_eval += 2;
                if call!("ntt_set_s(2^20)", h::ntt_set_s(&mut big, &inp, 1 << 20)).is_ok() {
                    obs.fail(format!("{name}-set-s-too-large-accepted"), "ntt_set_s accepted size 2^20");
                    return;
                }
                if let Err(e) = call!("ntt(2^20)", h::ntt(&mut big, &inp, 1 << 20)) {
                    obs.fail(format!("{name}-max-size-refused"), format!("ntt refused the maximum size 2^20: {e}"));
                    return;
                }
                // and 2^19 itself is the largest size the shifted transform supports
                n_eval += 1;
                if let Err(e) = call!("ntt_set_s(2^19)", h::ntt_set_s(&mut big[..1 << 19], &inp, 1 << 19)) {
                    obs.fail(format!("{name}-set-s-max-size-refused"), format!("ntt_set_s refused its maximum size 2^19: {e}"));
                    return;
                }
                obs.label("size-limit-boundaries");
            }
            // double_evaluations: wrong output length, non power of two
            for (n, outlen) in [(4usize, 7usize), (4, 9), (4, 4), (3, 6), (6, 12), (4, 0)] {
                let ev: Vec<F> = (0..n).map(|i| rnd(*seed, 100 + i as u64)).collect();
                let mut o = vec![F::zero(); outlen];
                n_eval += 1;
                if call!("double_evaluations(bad)", h::double_evaluations(&mut o, &ev)).is_ok() {
                    obs.fail(format!("{name}-double-bad-args-accepted"), format!("{name}: double_evaluations accepted {n} evaluations with an output of {outlen}"));
                    return;
                }
            }
        }
    }
    obs.evals = n_eval.max(1);
    obs.inner_nontrivial = n_eval;
}

fn fld_strategy() -> BoxedStrategy<Fld> {
    prop_oneof![Just(Fld::F32), Just(Fld::F64), Just(Fld::F128)].boxed()
}

impl Check for C10 {
    type Case = Case;
    const ID: &'static str = "C10";
    fn rule(&self) -> String {
        "(enumerated, hook H2) for each of the three NTT-friendly fields and each size n = 2^k ≤ 2^8 (2^11 thorough): ntt, ntt_set_s and ntt_inv applied to EVERY basis vector and every entry compared with ω^{ij}, (sω^i)^j, ω^{-ij}/n computed by square-and-multiply; nth_root_powers for every k ≤ 20 (≤ 14 quick); extend_values_to_power_of_2 for EVERY partial length 0..=n for n ≤ 2^5 (2^7 thorough) against O(m²) Lagrange interpolation; poly_range_check on a grid of ranges; error paths. (generated) sizes up to 2^20 (set_s 2^19) with generated basis vectors / dense inputs shorter than size and generated output indices checked by Horner evaluation; Lagrange batched evaluation at every node, 0, ±1, next-order root and random points for batches of 1..5; double_evaluations and poly_mul_lagrange against naive O(n²) interpolation. Non-trivial = n ≥ 2 with a non-zero input; enumerated entries are distinct by construction".into()
    }
    fn strategy(&self, tier: Tier) -> BoxedStrategy<Case> {
        let maxl = tier.pick(7u8, 9);
        let variant = prop_oneof![Just(Variant::Ntt), Just(Variant::SetS), Just(Variant::Inv)];
        prop_oneof![
            3 => (fld_strategy(), 9u8..=20, variant, any::<u64>()).prop_map(|(field, log, variant, seed)| {
                let log = if variant == Variant::SetS { log.min(19) } else { log };
                Case::Sparse { field, log, variant, seed }
            }),
            3 => (fld_strategy(), 0u8..=maxl, any::<u32>(), any::<u64>()).prop_map(|(field, log, in_len, seed)| Case::Dense { field, log, in_len: 1 + in_len % (1u32 << log), seed }),
            3 => (fld_strategy(), 0u8..=maxl, 1u8..=5, any::<u64>()).prop_map(|(field, log, batch, seed)| Case::LagrangeEval { field, log, batch, seed }),
            2 => (fld_strategy(), 0u8..=maxl, any::<u32>(), any::<u64>()).prop_map(|(field, log, m, seed)| Case::Extend { field, log: log.min(6), num_values: m % ((1u32 << log.min(6)) + 1), seed }),
            2 => (fld_strategy(), 0u8..=maxl, any::<u64>()).prop_map(|(field, log, seed)| Case::Double { field, log, seed }),
            2 => (fld_strategy(), 0u8..=maxl, any::<u64>()).prop_map(|(field, log, seed)| Case::MulLagrange { field, log, seed }),
            1 => (fld_strategy(), 0u16..300, 0u16..40).prop_map(|(field, start, len)| Case::RangeCheck { field, start, end: start + len }),
        ]
        .boxed()
    }
    fn num_cases(&self, tier: Tier) -> u64 {
        tier.pick(3000, 40_000)
    }
    fn enumerate(&self, tier: Tier, shard: usize, nshards: usize, f: &mut dyn FnMut(Case) -> bool) {
        let mut cases = vec![];
        let maxlog = tier.pick(8u8, 11);
        for field in [Fld::F32, Fld::F64, Fld::F128] {
            cases.push(Case::Errors { field, seed: 1 });
            for log in 0..=maxlog {
                let n = 1u32 << log;
                let step = if log <= 6 { n } else { 32 };
                for variant in [Variant::Ntt, Variant::SetS, Variant::Inv] {
                    for j0 in (0..n).step_by(step as usize) {
                        cases.push(Case::Basis { field, log, variant, j0, jn: step });
                    }
                }
            }
            for log in 0..=tier.pick(14u8, 20) {
                cases.push(Case::RootPowers { field, log });
            }
            for log in 0..=tier.pick(5u8, 7) {
                for m in 0..=(1u32 << log) {
                    cases.push(Case::Extend { field, log, num_values: m, seed: 42 + m as u64 });
                }
            }
            for (s, e) in [(0u16, 0u16), (0, 1), (0, 2), (0, 3), (1, 2), (5, 9), (0, 17), (100, 101), (254, 258)] {
                cases.push(Case::RangeCheck { field, start: s, end: e });
            }
        }
        for (i, c) in cases.into_iter().enumerate() {
            if i % nshards == shard && !f(c) {
                return;
            }
        }
    }
    fn enumerated_space(&self, tier: Tier) -> Option<String> {
        Some(format!("3 fields × sizes 2^0..2^{} × 3 transforms × every basis vector × every output entry; nth_root_powers for every log ≤ {}; extend_values for every partial length of every size ≤ 2^{}", tier.pick(8, 11), tier.pick(14, 20), tier.pick(5, 7)))
    }
    fn case_timeout_s(&self, tier: Tier) -> u64 {
        tier.pick(600, 3600)
    }
    fn run(&self, case: &Case) -> Outcome {
        let mut obs = Obs::new();
        let (field, what) = match case {
            Case::Basis { field, log, variant, .. } => (*field, format!("basis:{variant:?}:2^{log}")),
            Case::Sparse { field, log, variant, .. } => (*field, format!("sparse:{variant:?}:2^{log}")),
            Case::Dense { field, log, .. } => (*field, format!("dense:2^{log}")),
            Case::LagrangeEval { field, log, .. } => (*field, format!("lagrange-eval:2^{log}")),
            Case::Extend { field, log, .. } => (*field, format!("extend:2^{log}")),
            Case::Double { field, log, .. } => (*field, format!("double:2^{log}")),
            Case::MulLagrange { field, log, .. } => (*field, format!("mul-lagrange:2^{log}")),
            Case::RootPowers { field, log } => (*field, format!("root-powers:2^{log}")),
            Case::RangeCheck { field, .. } => (*field, "range-check".to_string()),
            Case::Errors { field, .. } => (*field, "errors".to_string()),
        };
        obs.label(format!("{field:?}:{what}"));
        obs.nt();
        match field {
            Fld::F32 => run_generic::<FieldPrio2>(case, &mut obs),
            Fld::F64 => run_generic::<Field64>(case, &mut obs),
            Fld::F128 => run_generic::<Field128>(case, &mut obs),
        }
        // generated cases: distinctness is measured by the case hash, not claimed per entry
        if !matches!(case, Case::Basis { .. } | Case::RootPowers { .. } | Case::Errors { .. }) && !matches!(case, Case::Extend { seed, .. } if *seed < 42 + 200) {
            obs.inner_nontrivial = 0;
        }
        obs.finish()
    }
}
