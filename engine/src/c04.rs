//! C04 — Poplar1 robustness: accepted reports contribute a zero or one-hot 0/1 vector.
//!
//! Oracle: a BigUint transcription of the sketch (draft §8 / BBCG+21 §4.2) fed with the wire bytes
//! and with an *independent* evaluation of both IDPF keys (public `Idpf::eval`, no cache). The
//! library's verifier shares, verdict and output shares must equal the model's, and whenever both
//! aggregators finish the summed output over the candidates must be zero or one-hot with value 1.

use crate::c03::{make_param, AggParamSpec, Bits, PopXof};
use crate::gen::{arr_from, bytes_from, ctx_strategy, seed_strategy};
use crate::harness::*;
use crate::p3::{combine_wire, init_wire, next_wire, shard_wire, AggInput, Fail, NextOut};
use crate::util::*;
use num_bigint::BigUint;
use num_traits::{One, Zero};
use prio::codec::{Encode, ParameterizedDecode};
use prio::vdaf::{Aggregator, VerifyTransition};
use prio::field::{Field255, Field64};
use prio::idpf::{Idpf, IdpfOutputShare, NoCache};
use prio::vdaf::poplar1::{Poplar1, Poplar1AggregationParam, Poplar1IdpfValue, Poplar1PublicShare};
use prio::vdaf::xof::{IntoFieldVec, Xof, XofFixedKeyAes128, XofTurboShake128};
use proptest::prelude::*;
use serde::{Deserialize, Serialize};

pub struct C04;

#[derive(Clone, Debug, Serialize, Deserialize)]
pub enum Region {
    /// packed control bits of the public share
    ControlBits,
    /// correction-word seeds
    CwSeeds,
    /// payload element `elem` (0 = data, 1 = auth) of the correction word at a level
    CwPayload { level: u16, elem: u8 },
    IdpfKey(u8),
    CorrSeed(u8),
    CorrInner { agg: u8, level: u16, which: u8 },
    CorrLeaf { agg: u8, which: u8 },
    /// round-one sketch share of aggregator j, element k
    SketchShare { agg: u8, elem: u8 },
    /// round-one sketch message (as delivered to both), element k
    SketchMessage { elem: u8 },
    /// round-two verifier share of aggregator j
    VerifierShare2 { agg: u8 },
}

#[derive(Clone, Debug, Serialize, Deserialize)]
pub enum Op {
    /// add a non-zero delta to the field element addressed by the region (message stays decodable)
    AddDelta { region: Region, delta: crate::c02::ValSel },
    /// flip one bit inside the region's bytes
    FlipBit { region: Region, bit: u16 },
}

#[derive(Clone, Debug, Serialize, Deserialize)]
pub struct Programmed {
    /// values programmed at the queried level and the levels above: (data, auth) selectors
    pub data: crate::c02::ValSel,
    /// None = consistent authenticator (k·data); Some = arbitrary
    pub auth: Option<crate::c02::ValSel>,
}

#[derive(Clone, Debug, Serialize, Deserialize)]
pub enum Mode {
    /// honest sharding followed by alterations
    Alter { rand_seed: u64, ops: Vec<Op> },
    /// client built from public pieces: programmed values per level class, A/B offsets
    Build { queried: Programmed, others: Programmed, a_off: crate::c02::ValSel, b_off: crate::c02::ValSel, corr_seed_seed: u64, honest_ab: bool },
}

#[derive(Clone, Debug, Serialize, Deserialize)]
pub struct Case {
    pub bits: usize,
    pub aes: bool,
    pub ctx: Hex,
    pub key_seed: u64,
    pub nonce_seed: u64,
    pub input: Bits,
    pub param: AggParamSpec,
    pub mode: Mode,
}

fn region_strategy() -> BoxedStrategy<Region> {
    prop_oneof![
        1 => Just(Region::ControlBits),
        1 => Just(Region::CwSeeds),
        5 => (any::<u16>(), 0u8..2).prop_map(|(level, elem)| Region::CwPayload { level, elem }),
        1 => (0u8..2).prop_map(Region::IdpfKey),
        1 => (0u8..2).prop_map(Region::CorrSeed),
        4 => (0u8..2, any::<u16>(), 0u8..2).prop_map(|(agg, level, which)| Region::CorrInner { agg, level, which }),
        2 => (0u8..2, 0u8..2).prop_map(|(agg, which)| Region::CorrLeaf { agg, which }),
        2 => (0u8..2, 0u8..3).prop_map(|(agg, elem)| Region::SketchShare { agg, elem }),
        2 => (0u8..3).prop_map(|elem| Region::SketchMessage { elem }),
        1 => (0u8..2).prop_map(|agg| Region::VerifierShare2 { agg }),
    ]
    .boxed()
}

fn programmed() -> BoxedStrategy<Programmed> {
    use crate::c02::ValSel;
    (
        prop_oneof![4 => Just(ValSel::One), 2 => Just(ValSel::Zero), 2 => Just(ValSel::Two), 1 => Just(ValSel::MinusOne), 1 => any::<u64>().prop_map(ValSel::Rand)],
        prop_oneof![3 => Just(None), 1 => crate::c02::valsel().prop_map(Some)],
    )
        .prop_map(|(data, auth)| Programmed { data, auth })
        .boxed()
}

pub fn case_strategy(deep: bool) -> BoxedStrategy<Case> {
    let bits = if deep { prop_oneof![1usize..=12, 13usize..=80].boxed() } else { (1usize..=12).boxed() };
    let mode = prop_oneof![
        3 => (seed_strategy(), prop::collection::vec(prop_oneof![4 => (region_strategy(), crate::c02::valsel()).prop_map(|(region, delta)| Op::AddDelta { region, delta }), 1 => (region_strategy(), any::<u16>()).prop_map(|(region, bit)| Op::FlipBit { region, bit })], 1..=3)).prop_map(|(rand_seed, ops)| Mode::Alter { rand_seed, ops }),
        2 => (programmed(), programmed(), prop_oneof![3 => Just(crate::c02::ValSel::Zero), 1 => crate::c02::valsel()], prop_oneof![3 => Just(crate::c02::ValSel::Zero), 1 => crate::c02::valsel()], any::<u64>(), prop::bool::weighted(0.8)).prop_map(|(queried, others, a_off, b_off, corr_seed_seed, honest_ab)| Mode::Build { queried, others, a_off, b_off, corr_seed_seed, honest_ab }),
    ];
    (bits, any::<bool>(), ctx_strategy(), any::<u64>(), seed_strategy(), any::<u64>(), any::<u16>(), prop_oneof![6 => prop::collection::vec((any::<u8>(), any::<u16>(), any::<u64>()), 1..=6), 2 => prop::collection::vec((any::<u8>(), any::<u16>(), any::<u64>()), 7..=40), 1 => prop::collection::vec((any::<u8>(), any::<u16>(), any::<u64>()), 41..=150)], mode)
        .prop_map(|(bits, aes, ctx, key_seed, nonce_seed, input_seed, level, cands, mode)| {
            let input = Bits::from_seed(input_seed, bits);
            let level = idx16(level, bits);
            let len = level + 1;
            let mut prefixes: Vec<Bits> = vec![];
            for (src, pos, seed) in cands {
                let mut b = input.bools()[..len].to_vec();
                match src % 4 {
                    0 | 1 => {}
                    2 => {
                        let i = idx16(pos, len);
                        b[i] = !b[i];
                    }
                    _ => b = Bits::from_seed(seed | 2, len).bools(),
                }
                prefixes.push(Bits::from_bools(&b));
            }
            prefixes.sort_by(|x, y| x.bools().cmp(&y.bools()));
            prefixes.dedup();
            Case { bits, aes, ctx, key_seed: key_seed | 2, nonce_seed, input, param: AggParamSpec { level, prefixes, heads: vec![] }, mode }
        })
        .boxed()
}

// ------------------------------------------------------------------------------------------------
// Model

fn dst(usage: u16) -> [u8; 8] {
    let mut d = [0u8; 8];
    d[0] = 18; // VDAF draft version
    d[1] = 0;
    d[2..6].copy_from_slice(&6u32.to_be_bytes());
    d[6..8].copy_from_slice(&usage.to_be_bytes());
    d
}

struct Parsed {
    key: [u8; 16],
    corr_seed: Vec<u8>,
    corr_inner: Vec<[BigUint; 2]>,
    corr_leaf: [BigUint; 2],
}

fn parse_input_share(b: &[u8], bits: usize, k: usize) -> Option<Parsed> {
    let want = 16 + k + 16 * (bits - 1) + 64;
    if b.len() != want {
        return None;
    }
    let mut key = [0u8; 16];
    key.copy_from_slice(&b[..16]);
    let corr_seed = b[16..16 + k].to_vec();
    let mut off = 16 + k;
    let mut corr_inner = vec![];
    for _ in 0..bits - 1 {
        let x = BigUint::from_bytes_le(&b[off..off + 8]);
        let y = BigUint::from_bytes_le(&b[off + 8..off + 16]);
        off += 16;
        corr_inner.push([x, y]);
    }
    let x = BigUint::from_bytes_le(&b[off..off + 32]);
    let y = BigUint::from_bytes_le(&b[off + 32..off + 64]);
    // non-canonical elements are the decoder's to refuse
    let (p64, p255) = (Field64::modulus_big(), Field255::modulus_big());
    if corr_inner.iter().any(|c| c[0] >= p64 || c[1] >= p64) || x >= p255 || y >= p255 {
        return None;
    }
    Some(Parsed { key, corr_seed, corr_inner, corr_leaf: [x, y] })
}

struct Model {
    /// per aggregator: sketch share (3 elements), A, B, output share (data components)
    sketch: [Vec<BigUint>; 2],
    a_share: [BigUint; 2],
    b_share: [BigUint; 2],
    out: [Vec<BigUint>; 2],
    /// summed evaluation over the candidates
    x: Vec<BigUint>,
    y: Vec<BigUint>,
    p: BigUint,
    esize: usize,
}

fn elems_of<F: FieldBig>(b: &[u8]) -> Option<Vec<BigUint>> {
    decode_vec::<F>(b).map(|v| v.into_iter().map(|x| x.to_big()).collect())
}

fn build_model<P: Xof<K>, F: FieldBig, const K: usize>(case: &Case, key: &[u8; K], nonce: &[u8; 16], public_share: &[u8], input_shares: &[Vec<u8>], ap: &Poplar1AggregationParam) -> Result<Model, String> {
    let bits = case.bits;
    let leaf = case.param.level == bits - 1;
    let p = F::modulus_big();
    let ps = Poplar1PublicShare::get_decoded_with_param(&bits, public_share).map_err(|e| format!("public share: {e}"))?;
    let idpf = Idpf::<Poplar1IdpfValue<Field64>, Poplar1IdpfValue<Field255>>::new((), ());
    let n = ap.prefixes().len();
    let level_be = (case.param.level as u16).to_be_bytes();
    let r: Vec<BigUint> = P::seed_stream(key, &[&dst(4), &case.ctx.0], &[nonce, &level_be]).into_field_vec::<F>(n).into_iter().map(|x| x.to_big()).collect();
    let mut m = Model { sketch: [vec![], vec![]], a_share: [BigUint::zero(), BigUint::zero()], b_share: [BigUint::zero(), BigUint::zero()], out: [vec![], vec![]], x: vec![BigUint::zero(); n], y: vec![BigUint::zero(); n], p: p.clone(), esize: F::ENCODED_SIZE };
    for j in 0..2 {
        let pi = parse_input_share(&input_shares[j], bits, K).ok_or("input share length")?;
        // canonical elements only (the decoder's business otherwise)
        let key_seed = seed_from::<16>(&pi.key);
        let (abc, a_sh, b_sh): (Vec<BigUint>, BigUint, BigUint) = {
            let mut cs = [0u8; K];
            cs.copy_from_slice(&pi.corr_seed);
            if leaf {
                let v: Vec<Field255> = P::seed_stream(&cs, &[&dst(3), &case.ctx.0], &[&[j as u8], nonce]).into_field_vec(3);
                (v.into_iter().map(|x| x.to_big()).collect(), pi.corr_leaf[0].clone(), pi.corr_leaf[1].clone())
            } else {
                let l = case.param.level;
                let v: Vec<Field64> = P::seed_stream(&cs, &[&dst(2), &case.ctx.0], &[&[j as u8], nonce]).into_field_vec(3 * (l + 1));
                (v[3 * l..].iter().map(|x| x.to_big()).collect(), pi.corr_inner[l][0].clone(), pi.corr_inner[l][1].clone())
            }
        };
        let mut s = abc.clone();
        let mut out = vec![];
        for (i, prefix) in ap.prefixes().iter().enumerate() {
            let sh = idpf.eval(j, &ps, &key_seed, prefix, &case.ctx.0, nonce, &mut NoCache::new()).map_err(|e| format!("idpf eval: {e}"))?;
            let enc = match (&sh, leaf) {
                (IdpfOutputShare::Inner(v), false) => v.get_encoded(),
                (IdpfOutputShare::Leaf(v), true) => v.get_encoded(),
                _ => return Err("idpf eval returned the wrong level kind".into()),
            }
            .map_err(|e| format!("{e}"))?;
            let xy = elems_of::<F>(&enc).ok_or("idpf value bytes")?;
            let (xd, ya) = (xy[0].clone(), xy[1].clone());
            s[0] = (&s[0] + &r[i] * &xd) % &p;
            s[1] = (&s[1] + &r[i] * &r[i] * &xd) % &p;
            s[2] = (&s[2] + &r[i] * &ya) % &p;
            m.x[i] = (&m.x[i] + &xd) % &p;
            m.y[i] = (&m.y[i] + &ya) % &p;
            out.push(xd);
        }
        m.sketch[j] = s;
        m.a_share[j] = a_sh % &p;
        m.b_share[j] = b_sh % &p;
        m.out[j] = out;
    }
    Ok(m)
}

fn enc_elems(v: &[BigUint], esize: usize) -> Vec<u8> {
    let mut out = vec![];
    for x in v {
        let mut b = x.to_bytes_le();
        b.resize(esize, 0);
        out.extend_from_slice(&b);
    }
    out
}

fn is_zero_or_onehot(x: &[BigUint]) -> bool {
    let one = BigUint::one();
    let nz: Vec<&BigUint> = x.iter().filter(|v| !v.is_zero()).collect();
    nz.is_empty() || (nz.len() == 1 && *nz[0] == one)
}

// ------------------------------------------------------------------------------------------------
// Byte-level alterations

fn add_to_elem(b: &mut [u8], off: usize, esize: usize, delta: &BigUint, p: &BigUint) -> bool {
    if off + esize > b.len() {
        return false;
    }
    let cur = BigUint::from_bytes_le(&b[off..off + esize]);
    let mut d = delta % p;
    if d.is_zero() {
        d = BigUint::one();
    }
    let nv = (cur + d) % p;
    let mut nb = nv.to_bytes_le();
    nb.resize(esize, 0);
    b[off..off + esize].copy_from_slice(&nb);
    true
}

fn flip_in(b: &mut [u8], start: usize, len: usize, bit: u16) -> bool {
    if len == 0 || start + len > b.len() {
        return false;
    }
    let i = idx16(bit, len * 8);
    b[start + i / 8] ^= 1 << (i % 8);
    true
}

struct Wire {
    public: Vec<u8>,
    inputs: Vec<Vec<u8>>,
}

fn apply_client_ops(case: &Case, w: &mut Wire, ops: &[Op], k: usize) -> usize {
    let bits = case.bits;
    let p64 = Field64::modulus_big();
    let p255 = Field255::modulus_big();
    let cb = bits.div_ceil(4);
    let seeds = 16 * bits;
    let mut n = 0;
    for op in ops {
        let (region, delta, bit) = match op {
            Op::AddDelta { region, delta } => (region, Some(delta), 0u16),
            Op::FlipBit { region, bit } => (region, None, *bit),
        };
        let changed = match region {
            Region::ControlBits => {
                // only meaningful bits (flipping padding is a codec matter)
                let i = idx16(bit, 2 * bits);
                w.public[i / 8] ^= 1 << (i % 8);
                true
            }
            Region::CwSeeds => flip_in(&mut w.public, cb, seeds, bit),
            Region::CwPayload { level, elem } => {
                let l = idx16(*level, bits);
                let (off, es, p) = if l == bits - 1 { (cb + seeds + 16 * (bits - 1) + 32 * (*elem as usize % 2), 32, &p255) } else { (cb + seeds + 16 * l + 8 * (*elem as usize % 2), 8, &p64) };
                match delta {
                    Some(d) => add_to_elem(&mut w.public, off, es, &d.big(p), p),
                    None => flip_in(&mut w.public, off, es, bit),
                }
            }
            Region::IdpfKey(j) => flip_in(&mut w.inputs[*j as usize % 2], 0, 16, bit),
            Region::CorrSeed(j) => flip_in(&mut w.inputs[*j as usize % 2], 16, k, bit),
            Region::CorrInner { agg, level, which } => {
                if bits < 2 {
                    false
                } else {
                    let l = idx16(*level, bits - 1);
                    let off = 16 + k + 16 * l + 8 * (*which as usize % 2);
                    match delta {
                        Some(d) => add_to_elem(&mut w.inputs[*agg as usize % 2], off, 8, &d.big(&p64), &p64),
                        None => flip_in(&mut w.inputs[*agg as usize % 2], off, 8, bit),
                    }
                }
            }
            Region::CorrLeaf { agg, which } => {
                let off = 16 + k + 16 * (bits - 1) + 32 * (*which as usize % 2);
                match delta {
                    Some(d) => add_to_elem(&mut w.inputs[*agg as usize % 2], off, 32, &d.big(&p255), &p255),
                    None => flip_in(&mut w.inputs[*agg as usize % 2], off, 32, bit),
                }
            }
            _ => false,
        };
        if changed {
            n += 1;
        }
    }
    n
}

fn apply_transit_ops(b: &mut Vec<u8>, ops: &[Op], which: &dyn Fn(&Region) -> Option<usize>, esize: usize, p: &BigUint) -> usize {
    let mut n = 0;
    for op in ops {
        let (region, delta, bit) = match op {
            Op::AddDelta { region, delta } => (region, Some(delta), 0u16),
            Op::FlipBit { region, bit } => (region, None, *bit),
        };
        if let Some(elem) = which(region) {
            let off = elem * esize;
            let ch = match delta {
                Some(d) => add_to_elem(b, off, esize, &d.big(p), p),
                None => flip_in(b, off, esize, bit),
            };
            if ch {
                n += 1;
            }
        }
    }
    n
}

// ------------------------------------------------------------------------------------------------

fn run_generic<P: Xof<K> + 'static, F: FieldBig, const K: usize>(case: &Case, obs: &mut Obs) {
    let bits = case.bits;
    let vdaf = Poplar1::<P, K>::new(bits);
    let key: [u8; K] = arr_from(case.key_seed);
    let nonce: [u8; 16] = arr_from(case.nonce_seed);
    let leaf = case.param.level == bits - 1;
    let ap = match make_param(&case.param) {
        Ok(a) => a,
        Err(e) => {
            obs.fail("param", format!("harness: bad aggregation parameter: {e}"));
            return;
        }
    };
    let p = F::modulus_big();
    // ---- the client's messages
    let mut client_alterations = 0usize;
    let ops: Vec<Op> = match &case.mode {
        Mode::Alter { ops, .. } => ops.clone(),
        _ => vec![],
    };
    let wire = match &case.mode {
        Mode::Alter { rand_seed, ops } => {
            let rand = bytes_from(*rand_seed, 32 + 3 * K);
            let sh = match shard_wire(&vdaf, &case.ctx.0, &case.input.idpf(), &nonce, &rand) {
                Ok(s) => s,
                Err(f) => {
                    obs.fail("honest-shard", format!("honest sharding failed: {}", f.describe()));
                    return;
                }
            };
            let mut w = Wire { public: sh.public_share, inputs: sh.input_shares };
            client_alterations = apply_client_ops(case, &mut w, ops, K);
            w
        }
        Mode::Build { queried, others, a_off, b_off, corr_seed_seed, honest_ab } => {
            obs.label("mode:build");
            let p64 = Field64::modulus_big();
            let p255 = Field255::modulus_big();
            // authenticators k_l (the client's secret), one per level
            let ks: Vec<BigUint> = (0..bits).map(|l| BigUint::from_bytes_le(&expand(*corr_seed_seed, 500 + l as u64, 40))).collect();
            let val = |l: usize| -> (BigUint, BigUint) {
                let pr = if l == case.param.level { queried } else { others };
                let pp = if l == bits - 1 { &p255 } else { &p64 };
                let d = pr.data.big(pp);
                let a = match pr.auth {
                    None => (&ks[l] % pp) * &d % pp,
                    Some(v) => v.big(pp),
                };
                (d, a)
            };
            let inner: Vec<Poplar1IdpfValue<Field64>> = (0..bits - 1)
                .map(|l| {
                    let (d, a) = val(l);
                    Poplar1IdpfValue::new([Field64::from_big(&d), Field64::from_big(&a)])
                })
                .collect();
            let (d, a) = val(bits - 1);
            let leafv = Poplar1IdpfValue::new([Field255::from_big(&d), Field255::from_big(&a)]);
            let idpf = Idpf::<Poplar1IdpfValue<Field64>, Poplar1IdpfValue<Field255>>::new((), ());
            let (ps, keys) = match guard(|| idpf.gen(&case.input.idpf(), inner, leafv, &case.ctx.0, &nonce)) {
                Ok(Ok(x)) => x,
                Ok(Err(e)) => {
                    obs.fail("idpf-gen-err", format!("Idpf::gen refused well-formed arguments: {e}"));
                    return;
                }
                Err(pn) => {
                    obs.fail(format!("idpf-gen-{}", panic_sig(&pn)), format!("Idpf::gen panicked: {pn}"));
                    return;
                }
            };
            let public = ps.get_encoded().expect("encode public share");
            // correlated randomness from two seeds exactly as the aggregators will derive it
            let cs: [[u8; K]; 2] = [arr_from(*corr_seed_seed | 2), arr_from(corr_seed_seed.wrapping_add(99) | 2)];
            let inner_abc: Vec<Vec<BigUint>> = (0..2).map(|j| P::seed_stream(&cs[j], &[&dst(2), &case.ctx.0], &[&[j as u8], &nonce]).into_field_vec::<Field64>(3 * (bits - 1)).into_iter().map(|x| x.to_big()).collect()).collect();
            let leaf_abc: Vec<Vec<BigUint>> = (0..2).map(|j| P::seed_stream(&cs[j], &[&dst(3), &case.ctx.0], &[&[j as u8], &nonce]).into_field_vec::<Field255>(3).into_iter().map(|x| x.to_big()).collect()).collect();
            let ab = |l: usize| -> (BigUint, BigUint) {
                let (pp, abc0, abc1) = if l == bits - 1 { (&p255, leaf_abc[0].clone(), leaf_abc[1].clone()) } else { (&p64, inner_abc[0][3 * l..3 * l + 3].to_vec(), inner_abc[1][3 * l..3 * l + 3].to_vec()) };
                let a = (&abc0[0] + &abc1[0]) % pp;
                let b = (&abc0[1] + &abc1[1]) % pp;
                let c = (&abc0[2] + &abc1[2]) % pp;
                let k = &ks[l] % pp;
                // A = -2a + k ; B = a^2 + b - a k + c
                let mut big_a = (pp * 2u32 + &k - (&a * 2u32) % pp) % pp;
                let mut big_b = ((&a * &a) % pp + &b + pp - (&a * &k) % pp + &c) % pp;
                if l == case.param.level && !*honest_ab {
                    big_a = (big_a + a_off.big(pp)) % pp;
                    big_b = (big_b + b_off.big(pp)) % pp;
                }
                (big_a, big_b)
            };
            let mut inputs = vec![];
            // split A, B additively
            let mut shares0 = vec![];
            let mut shares1 = vec![];
            for l in 0..bits {
                let pp = if l == bits - 1 { &p255 } else { &p64 };
                let (a, b) = ab(l);
                let r0 = BigUint::from_bytes_le(&expand(*corr_seed_seed, 900 + l as u64, 40)) % pp;
                let r1 = BigUint::from_bytes_le(&expand(*corr_seed_seed, 1900 + l as u64, 40)) % pp;
                shares1.push((r0.clone(), r1.clone()));
                shares0.push(((a + pp - r0) % pp, (b + pp - r1) % pp));
            }
            for (j, sh) in [shares0, shares1].iter().enumerate() {
                let mut b = vec![];
                b.extend_from_slice(keys[j].as_ref());
                b.extend_from_slice(&cs[j]);
                for l in 0..bits - 1 {
                    b.extend_from_slice(&enc_elems(&[sh[l].0.clone(), sh[l].1.clone()], 8));
                }
                b.extend_from_slice(&enc_elems(&[sh[bits - 1].0.clone(), sh[bits - 1].1.clone()], 32));
                inputs.push(b);
            }
            Wire { public, inputs }
        }
    };

    // ---- model on the (possibly altered) client messages
    let model = build_model::<P, F, K>(case, &key, &nonce, &wire.public, &wire.inputs, &ap);

    // ---- the library, step by step, compared with the model
    let inputs: Vec<AggInput<K>> = (0..2).map(|j| AggInput { agg_id: j, verify_key: key, ctx: case.ctx.0.clone(), nonce, public_share: wire.public.clone(), input_share: wire.inputs[j].clone() }).collect();
    let mut states = vec![];
    let mut shares = vec![];
    let mut lib_rejected: Option<String> = None;
    let panic_fail = |f: &Fail, obs: &mut Obs| {
        obs.fail(format!("{}-{}", f.stage(), panic_sig(&f.describe())), format!("Poplar1 verification panicked: {}", f.describe()));
    };
    for a in &inputs {
        match init_wire(&vdaf, &ap, a) {
            Ok(o) => {
                states.push(o.state);
                shares.push(o.verifier_share);
            }
            Err(f) if f.is_panic() => {
                panic_fail(&f, obs);
                return;
            }
            Err(f) => {
                lib_rejected = Some(f.describe());
                break;
            }
        }
    }
    let model = match (model, &lib_rejected) {
        (Err(e), Some(_)) => {
            obs.label("rejected-at-decode");
            let _ = e;
            return;
        }
        (Err(e), None) => {
            // the model could not even parse what the library accepted
            obs.fail("model-cannot-parse", format!("library processed client messages the reference cannot parse: {e}"));
            return;
        }
        (Ok(_), Some(why)) => {
            obs.fail("lib-rejects-at-init", format!("verify_init/decoding refused client messages that are well-formed for the reference: {why}"));
            return;
        }
        (Ok(m), None) => m,
    };
    // round 1 shares must equal the model's, byte for byte
    for j in 0..2 {
        let want = enc_elems(&model.sketch[j], model.esize);
        if shares[j] != want {
            obs.fail("sketch-share-differs", format!("aggregator {j}: round-one sketch share {} differs from the reference {}", hex(&shares[j]), hex(&want)));
            return;
        }
    }
    // out-of-phase delivery: the (empty) round-two "done" message handed to a state that has not
    // yet seen the sketch must never release an output share (typed API: the wire decoder would
    // already refuse it)
    {
        use crate::codec::{pop_state, PopStateKind};
        for kind in [PopStateKind::InnerR2, PopStateKind::LeafR2] {
            if let Ok(done) = prio::vdaf::poplar1::Poplar1VerifierMessage::get_decoded_with_param(&pop_state(kind), &[]) {
                for (j, st) in states.iter().enumerate() {
                    let st = st.clone();
                    match guard(|| vdaf.verify_next(&case.ctx.0, st, done.clone())) {
                        Ok(Ok(VerifyTransition::Finish(_))) => {
                            obs.fail("finished-without-sketch-check", format!("aggregator {j}: the round-two message delivered to the round-one state released an output share; the sketch was never verified"));
                            return;
                        }
                        Ok(Ok(VerifyTransition::Continue(..))) => {
                            obs.fail("continued-without-sketch-message", format!("aggregator {j}: the round-two message delivered to the round-one state advanced the state"));
                            return;
                        }
                        Ok(Err(_)) => {}
                        Err(pn) => {
                            obs.fail(format!("verify-next-out-of-phase-{}", panic_sig(&pn)), format!("verify_next with an out-of-phase message panicked: {pn}"));
                            return;
                        }
                    }
                }
            }
        }
    }
    // transit alterations of sketch shares
    let mut transit = 0usize;
    for j in 0..2usize {
        transit += apply_transit_ops(&mut shares[j], &ops, &|r| if let Region::SketchShare { agg, elem } = r { if *agg as usize % 2 == j { Some(*elem as usize % 3) } else { None } } else { None }, model.esize, &p);
    }
    let z_shares: Vec<Vec<BigUint>> = shares.iter().map(|s| elems_of::<F>(s).unwrap_or_default()).collect();
    let msg1 = match combine_wire(&vdaf, &case.ctx.0, &ap, &states[1], &shares) {
        Ok(m) => Some(m),
        Err(f) if f.is_panic() => {
            panic_fail(&f, obs);
            return;
        }
        Err(f) => {
            lib_rejected = Some(f.describe());
            None
        }
    };
    let mut model_verdict_known = true;
    let mut model_accept = false;
    let mut outs: Vec<Vec<u8>> = vec![];
    if let Some(mut msg1) = msg1 {
        // reference z
        if z_shares.iter().any(|z| z.len() != 3) {
            // a bit flip made an element non-canonical: the library must have refused at decode
            obs.fail("noncanonical-share-combined", "a sketch share with a non-canonical element was combined");
            return;
        }
        let z: Vec<BigUint> = (0..3).map(|i| (&z_shares[0][i] + &z_shares[1][i]) % &p).collect();
        if msg1 != enc_elems(&z, model.esize) {
            obs.fail("sketch-message-differs", format!("round-one verifier message {} differs from the sum of the shares {}", hex(&msg1), hex(&enc_elems(&z, model.esize))));
            return;
        }
        transit += apply_transit_ops(&mut msg1, &ops, &|r| if let Region::SketchMessage { elem } = r { Some(*elem as usize % 3) } else { None }, model.esize, &p);
        let zp = match elems_of::<F>(&msg1) {
            Some(z) if z.len() == 3 => z,
            _ => {
                model_verdict_known = false;
                vec![]
            }
        };
        // round 2
        let mut next_states = vec![];
        let mut shares2 = vec![];
        for (j, st) in states.into_iter().enumerate() {
            match next_wire(&vdaf, j, &case.ctx.0, &ap, st, &msg1) {
                Ok(NextOut::Continue(s, b)) => {
                    next_states.push(s);
                    shares2.push(b);
                }
                Ok(NextOut::Finish(_)) => {
                    obs.fail("finished-after-one-round", "an aggregator released its output share after the first round");
                    return;
                }
                Err(f) if f.is_panic() => {
                    panic_fail(&f, obs);
                    return;
                }
                Err(f) => {
                    lib_rejected = Some(f.describe());
                    break;
                }
            }
        }
        if lib_rejected.is_none() {
            if !model_verdict_known {
                obs.fail("noncanonical-message-accepted", "a sketch message with a non-canonical element was processed");
                return;
            }
            // reference round-two shares
            let mut want2 = vec![];
            for j in 0..2 {
                let mut v = (&model.a_share[j] * &zp[0] + &model.b_share[j]) % &p;
                if j == 1 {
                    v = (v + &zp[0] * &zp[0] + &p * 2u32 - &zp[1] - &zp[2]) % &p;
                }
                want2.push(v);
            }
            for j in 0..2 {
                if shares2[j] != enc_elems(&[want2[j].clone()], model.esize) {
                    obs.fail("round-two-share-differs", format!("aggregator {j}: round-two verifier share {} differs from the reference {}", hex(&shares2[j]), hex(&enc_elems(&[want2[j].clone()], model.esize))));
                    return;
                }
            }
            for j in 0..2usize {
                transit += apply_transit_ops(&mut shares2[j], &ops, &|r| if let Region::VerifierShare2 { agg } = r { if *agg as usize % 2 == j { Some(0) } else { None } } else { None }, model.esize, &p);
            }
            match (elems_of::<F>(&shares2[0]), elems_of::<F>(&shares2[1])) {
                (Some(a), Some(b)) if a.len() == 1 && b.len() == 1 => model_accept = ((&a[0] + &b[0]) % &p).is_zero(),
                _ => model_verdict_known = false,
            }
            match combine_wire(&vdaf, &case.ctx.0, &ap, &next_states[0], &shares2) {
                Ok(msg2) => {
                    for (j, st) in next_states.into_iter().enumerate() {
                        match next_wire(&vdaf, j, &case.ctx.0, &ap, st, &msg2) {
                            Ok(NextOut::Finish(b)) => outs.push(b),
                            Ok(NextOut::Continue(..)) => {
                                lib_rejected = Some("third round requested".into());
                                break;
                            }
                            Err(f) if f.is_panic() => {
                                panic_fail(&f, obs);
                                return;
                            }
                            Err(f) => {
                                lib_rejected = Some(f.describe());
                                break;
                            }
                        }
                    }
                }
                Err(f) if f.is_panic() => {
                    panic_fail(&f, obs);
                    return;
                }
                Err(f) => lib_rejected = Some(f.describe()),
            }
        }
    } else {
        model_verdict_known = false;
    }

    let total_alt = client_alterations + transit;
    obs.label(format!("alterations:{}", total_alt.min(3)));
    obs.label(match model.x.len() { 0..=6 => "candidates:1-6", 7..=32 => "candidates:7-32", _ => "candidates:33+" });
    let honest_like = is_zero_or_onehot(&model.x);
    obs.label(if honest_like { "x:zero-or-onehot" } else { "x:malformed" });
    if leaf {
        obs.label("level:leaf");
    }
    match &lib_rejected {
        Some(why) => {
            obs.label("lib:rejected");
            if model_verdict_known && model_accept {
                obs.fail("lib-rejects-model-accepts", format!("the reference sketch accepts this report but the library rejected it: {why}"));
            }
            if total_alt > 0 || matches!(case.mode, Mode::Build { .. }) {
                obs.nt();
            }
        }
        None => {
            obs.label("lib:accepted");
            if model_verdict_known && !model_accept {
                obs.fail("lib-accepts-model-rejects", "both aggregators finished although the reference sketch verifier does not sum to zero");
                return;
            }
            // the stated property
            let mut sum = vec![BigUint::zero(); model.x.len()];
            for o in &outs {
                match elems_of::<F>(o) {
                    Some(v) if v.len() == sum.len() => {
                        for (s, x) in sum.iter_mut().zip(v) {
                            *s = (&*s + x) % &p;
                        }
                    }
                    _ => {
                        obs.fail("output-share-shape", "output share is not a vector with one element per candidate");
                        return;
                    }
                }
            }
            if sum != model.x {
                obs.fail("output-differs-from-idpf-eval", format!("released output shares sum to {sum:?} but the two IDPF keys evaluate to {:?} on the candidates", model.x));
                return;
            }
            if !is_zero_or_onehot(&sum) {
                obs.fail("accepted-non-onehot", format!("both aggregators finished but the candidates' summed output is {sum:?} (neither all-zero nor one-hot with value one)"));
                return;
            }
            if total_alt > 0 || matches!(case.mode, Mode::Build { .. }) {
                obs.label("accepted-non-honest-report");
                obs.nt();
            }
        }
    }
}

impl Check for C04 {
    type Case = Case;
    const ID: &'static str = "C04";
    fn rule(&self) -> String {
        "proptest-generated reports: (alter) honest deterministic sharding + 1..3 alterations addressed by region (control bits, correction-word seeds, payload data/auth element of any level, IDPF key, correlated-randomness seed, corr_inner/corr_leaf elements, sketch shares / sketch message / round-two verifier shares in transit), as field-element +δ or bit flips; (build) a client assembled from public pieces (Idpf::gen with programmed (data, auth) ∈ {1,0,2,−1,random}×{consistent, arbitrary}, correlated randomness recomputed from its seeds through the public Xof API, A/B shares consistent or offset). Oracle: BigUint transcription of the sketch on the wire bytes with independent evaluation of both IDPF keys (NoCache): verifier shares equal byte-for-byte, verdict equal, and accepted ⇒ Σ output shares = independent evaluation ∧ zero-or-one-hot-with-value-1. Non-trivial = an effective alteration or a built client; distinct by case hash".into()
    }
    fn assumptions(&self) -> Vec<String> {
        vec!["Idpf::gen draws its keys from the OS; verdicts do not depend on them (perfect correctness), so replays are exact up to those keys".into(), "field sampling from XOF streams (into_field_vec) is the library's; C11 checks it separately".into()]
    }
    fn strategy(&self, tier: Tier) -> BoxedStrategy<Case> {
        { let _ = tier; case_strategy(true) }
    }
    fn num_cases(&self, tier: Tier) -> u64 {
        tier.pick(300_000, 6_000_000)
    }
    fn run(&self, case: &Case) -> Outcome {
        let mut obs = Obs::new();
        let leaf = case.param.level == case.bits - 1;
        match (case.aes, leaf) {
            (false, false) => run_generic::<XofTurboShake128, Field64, 32>(case, &mut obs),
            (false, true) => run_generic::<XofTurboShake128, Field255, 32>(case, &mut obs),
            (true, false) => run_generic::<XofFixedKeyAes128, Field64, 16>(case, &mut obs),
            (true, true) => run_generic::<XofFixedKeyAes128, Field255, 16>(case, &mut obs),
        }
        let _ = PopXof::Turbo;
        obs.finish()
    }
}
