//! C18 — reports are bound to context, nonce, role and key: mismatches are rejected.

use crate::c03::{make_param, AggParamSpec, Bits};
use crate::gen::*;
use crate::harness::*;
use crate::p3::*;
use crate::util::*;
use prio::vdaf::poplar1::Poplar1;
use prio::vdaf::prio3::{Prio3, Prio3InputShare};
use prio::vdaf::xof::{Xof, XofTurboShake128};
use prio::vdaf::Aggregator;
use proptest::prelude::*;
use serde::{Deserialize, Serialize};

pub struct C18;

#[derive(Clone, Debug, Serialize, Deserialize, PartialEq, Eq)]
pub enum Who {
    /// only this aggregator deviates
    One(u8),
    /// the aggregators selected by the bit mask deviate, each to its own value
    Several(u16),
    /// every aggregator deviates to the same value
    AllSame,
}

#[derive(Clone, Debug, Serialize, Deserialize, PartialEq, Eq)]
pub enum Dev {
    Ctx { who: Who, how: u8, rnd: u64 },
    Nonce { who: Who, rnd: u64 },
    Key { who: Who, rnd: u64 },
    /// aggregator `agg` processes its share under another identifier
    AggId { agg: u8, to: u8 },
    /// the aggregators are configured with another algorithm identifier
    AlgId { who: Who, rnd: u32 },
}

#[derive(Clone, Debug, Serialize, Deserialize)]
pub enum Target {
    Prio3 { cfg: VdafCfg, meas: Meas },
    Poplar1 { bits: usize, input: Bits, param: AggParamSpec },
}

#[derive(Clone, Debug, Serialize, Deserialize)]
pub struct Case {
    pub target: Target,
    pub ctx: Hex,
    pub key_seed: u64,
    pub nonce_seed: u64,
    pub rand_seed: u64,
    pub plan: Vec<Dev>,
}

#[derive(Clone, Debug)]
struct View {
    ctx: Vec<u8>,
    nonce: [u8; 16],
    key: [u8; 32],
    id: usize,
    alg: u32,
}

fn deviates(who: &Who, j: usize) -> bool {
    match who {
        Who::One(k) => *k as usize == j,
        Who::Several(mask) => (mask >> (j % 16)) & 1 == 1,
        Who::AllSame => true,
    }
}

fn build_views(case: &Case, n: usize, alg: u32, key_seed: u64) -> Vec<View> {
    let base = View { ctx: case.ctx.0.clone(), nonce: arr_from(case.nonce_seed), key: arr_from(key_seed), id: 0, alg };
    let mut views: Vec<View> = (0..n).map(|j| View { id: j, ..base.clone() }).collect();
    for d in &case.plan {
        match d {
            Dev::Ctx { who, how, rnd } => {
                for (j, v) in views.iter_mut().enumerate() {
                    let w = match who {
                        Who::One(k) => Who::One(k % n as u8),
                        x => x.clone(),
                    };
                    if deviates(&w, j) {
                        let salt = if *who == Who::AllSame { 0 } else { j as u64 };
                        let mut c = case.ctx.0.clone();
                        match how % 4 {
                            0 if !c.is_empty() => {
                                let i = ((rnd ^ salt) as usize) % (c.len() * 8);
                                c[i / 8] ^= 1 << (i % 8);
                            }
                            1 if !c.is_empty() => {
                                c.pop();
                            }
                            2 => c.push((rnd ^ salt) as u8),
                            _ => c = expand(rnd ^ salt ^ 0xC7, 1, 1 + (*rnd % 20) as usize),
                        }
                        v.ctx = c;
                    }
                }
            }
            Dev::Nonce { who, rnd } => {
                for (j, v) in views.iter_mut().enumerate() {
                    let w = match who {
                        Who::One(k) => Who::One(k % n as u8),
                        x => x.clone(),
                    };
                    if deviates(&w, j) {
                        let salt = if *who == Who::AllSame { 0 } else { j as u64 + 1 };
                        let mut nn = v.nonce;
                        let i = ((rnd ^ salt) as usize) % 128;
                        nn[i / 8] ^= 1 << (i % 8);
                        if rnd % 3 == 0 {
                            nn = expand_arr::<16>(rnd ^ salt, 77);
                        }
                        v.nonce = nn;
                    }
                }
            }
            Dev::Key { who, rnd } => {
                for (j, v) in views.iter_mut().enumerate() {
                    let w = match who {
                        Who::One(k) => Who::One(k % n as u8),
                        x => x.clone(),
                    };
                    if deviates(&w, j) {
                        let salt = if *who == Who::AllSame { 0 } else { j as u64 + 1 };
                        let mut k = v.key;
                        let i = ((rnd ^ salt) as usize) % 256;
                        k[i / 8] ^= 1 << (i % 8);
                        if rnd % 3 == 0 {
                            k = expand_arr::<32>(rnd ^ salt ^ key_seed, 78);
                        }
                        v.key = k;
                    }
                }
            }
            Dev::AggId { agg, to } => {
                let j = *agg as usize % n;
                views[j].id = match to % 9 {
                    0 => (j + 1) % n,
                    1 => (j + n - 1) % n,
                    2 => n,
                    3 => 255,
                    // identifiers no instance has that alias the true one in a narrower integer
                    5 => 256 + j,
                    6 => 65536 + j,
                    7 => (1usize << 32) + j,
                    8 => usize::MAX - 255 + j,
                    _ => (*to as usize) % (n + 1),
                };
            }
            Dev::AlgId { who, rnd } => {
                for (j, v) in views.iter_mut().enumerate() {
                    let w = match who {
                        Who::One(k) => Who::One(k % n as u8),
                        x => x.clone(),
                    };
                    if deviates(&w, j) {
                        let salt = if *who == Who::AllSame { 0 } else { j as u32 + 1 };
                        v.alg = match rnd % 4 {
                            0 => alg ^ 1,
                            1 => alg.wrapping_add(1 + salt),
                            // a single flipped bit at any of the 32 positions
                            2 => alg ^ (1u32 << (((rnd >> 8) + salt) % 32)),
                            _ => rnd ^ salt,
                        };
                        if v.alg == alg {
                            v.alg = alg ^ 0x8000_0000;
                        }
                    }
                }
            }
        }
    }
    views
}

#[derive(Debug, PartialEq)]
enum Expect {
    /// all aggregators must finish with the honest output shares
    FinishHonest,
    MustFail,
}

fn expectation(views: &[View], honest_ctx: &[u8], honest_nonce: &[u8; 16], alg: u32, nonce_free: bool) -> Expect {
    let all_roles = views.iter().enumerate().all(|(j, v)| v.id == j);
    let all_ctx = views.iter().all(|v| v.ctx == honest_ctx);
    let all_alg = views.iter().all(|v| v.alg == alg);
    let keys_consistent = views.iter().all(|v| v.key == views[0].key);
    let nonces_consistent = views.iter().all(|v| v.nonce == views[0].nonce);
    let nonce_ok = nonces_consistent && (views[0].nonce == *honest_nonce || nonce_free);
    if all_roles && all_ctx && all_alg && keys_consistent && nonce_ok {
        Expect::FinishHonest
    } else {
        Expect::MustFail
    }
}

#[derive(Debug)]
enum Attempt {
    Completed(Vec<Vec<u8>>),
    Rejected(String),
    Panicked(Fail),
}

struct P3Run<'a> {
    case: &'a Case,
    cfg: &'a VdafCfg,
    meas: &'a Meas,
    obs: &'a mut Obs,
}

impl<'a> VdafVisitor for P3Run<'a> {
    type Out = ();
    fn visit<T, P>(self, vdaf: Prio3<T, P, 32>, typ: T)
    where
        T: TypeBridge + 'static,
        T::Field: FieldBig,
        P: Xof<32> + 'static,
    {
        let case = self.case;
        let cfg = self.cfg;
        let obs = self.obs;
        let n = cfg.n_agg as usize;
        let nonce: [u8; 16] = arr_from(case.nonce_seed);
        let rand = bytes_from(case.rand_seed, cfg.rand_len());
        let sh = match shard_wire(&vdaf, &case.ctx.0, &T::to_meas(self.meas), &nonce, &rand) {
            Ok(s) => s,
            Err(f) => {
                obs.fail("honest-shard", format!("honest sharding failed: {}", f.describe()));
                return;
            }
        };
        let decode_true_role = case.plan.iter().any(|d| matches!(d, Dev::AggId { to, .. } if (to >> 3) & 1 == 1));
        if decode_true_role {
            obs.label("agg-id:share-decoded-under-true-role");
        }
        let blind_flag = decode_true_role && !cfg.inst.has_joint_rand() && case.nonce_seed % 2 == 0;
        if blind_flag {
            obs.label("agg-id:share-with-unneeded-blind");
        }
        let attempt = |key_seed: u64| -> (Attempt, Expect) {
            let views = build_views(case, n, cfg.alg_id, key_seed);
            let exp = expectation(&views, &case.ctx.0, &nonce, cfg.alg_id, !cfg.inst.has_joint_rand());
            // each aggregator has its own instance (algorithm id), view and share
            let mut insts = vec![];
            for v in &views {
                match Prio3::<T, P, 32>::new(cfg.n_agg, cfg.n_proofs, v.alg, typ.clone()) {
                    Ok(i) => insts.push(i),
                    Err(e) => return (Attempt::Rejected(format!("constructor: {e}")), exp),
                }
            }
            // The aggregator API is stateless by contract: what an instance did for an earlier
            // report (here: the same report under the sharding context, nonce and its true
            // identifier, with this aggregator's key) must not influence what it does next. Half of
            // the cases run that honest step first on the very instances that then see the mismatch.
            if case.rand_seed % 2 == 0 {
                for (j, v) in views.iter().enumerate() {
                    let a = AggInput { agg_id: j, verify_key: v.key, ctx: case.ctx.0.clone(), nonce, public_share: sh.public_share.clone(), input_share: sh.input_shares[j].clone() };
                    if let Err(f) = init_wire(&insts[j], &(), &a) {
                        if f.is_panic() {
                            return (Attempt::Panicked(f), exp);
                        }
                    }
                }
            }
            let mut states = vec![];
            let mut shares = vec![];
            for (j, v) in views.iter().enumerate() {
                // aggregator j receives input share j, and processes it as id v.id
                // (the share is decoded either under the same wrong identifier, or under the true
                // position j and only verify_init runs under the wrong one)
                let a = AggInput { agg_id: v.id, verify_key: v.key, ctx: v.ctx.clone(), nonce: v.nonce, public_share: sh.public_share.clone(), input_share: sh.input_shares[j].clone() };
                let decode_id = if decode_true_role { j } else { v.id };
                // for a type without joint randomness, the share decoded under its true position may
                // in addition carry a blind nobody needs (an in-memory object; the decoder never
                // yields one): processing it under another identifier is still a mismatch
                let with_blind = blind_flag && v.id != j;
                let r = init_wire_edit(&insts[j], &(), &a, decode_id, |s| {
                    if !with_blind {
                        return s;
                    }
                    match s {
                        Prio3InputShare::Leader { measurement_share, proofs_share, joint_rand_blind: None } => Prio3InputShare::Leader { measurement_share, proofs_share, joint_rand_blind: Some(seed_from(&[7u8; 32])) },
                        Prio3InputShare::Helper { meas_and_proofs_share, joint_rand_blind: None } => Prio3InputShare::Helper { meas_and_proofs_share, joint_rand_blind: Some(seed_from(&[9u8; 32])) },
                        other => other,
                    }
                });
                match r {
                    Ok(o) => {
                        states.push(o.state);
                        shares.push(o.verifier_share);
                    }
                    Err(f) if f.is_panic() => return (Attempt::Panicked(f), exp),
                    Err(f) => return (Attempt::Rejected(f.describe()), exp),
                }
            }
            // every aggregator combines the shares itself, under its own context
            let mut outs = vec![];
            for (j, st) in states.into_iter().enumerate() {
                let msg = match combine_wire(&insts[j], &views[j].ctx, &(), &st, &shares) {
                    Ok(m) => m,
                    Err(f) if f.is_panic() => return (Attempt::Panicked(f), exp),
                    Err(f) => return (Attempt::Rejected(f.describe()), exp),
                };
                match next_wire(&insts[j], j, &views[j].ctx, &(), st, &msg) {
                    Ok(NextOut::Finish(b)) => outs.push(b),
                    Ok(_) => return (Attempt::Rejected("extra round".into()), exp),
                    Err(f) if f.is_panic() => return (Attempt::Panicked(f), exp),
                    Err(f) => return (Attempt::Rejected(f.describe()), exp),
                }
            }
            (Attempt::Completed(outs), exp)
        };
        // honest outputs under the sharding view (any consistent key gives the same output shares)
        let honest: Option<Vec<Vec<u8>>> = {
            let key: [u8; 32] = arr_from(case.key_seed);
            let inputs: Vec<AggInput> = (0..n).map(|j| AggInput { agg_id: j, verify_key: key, ctx: case.ctx.0.clone(), nonce, public_share: sh.public_share.clone(), input_share: sh.input_shares[j].clone() }).collect();
            verify_report_wire(&vdaf, &(), &inputs).ok()
        };
        let (first, exp) = attempt(case.key_seed);
        judge(first, exp, honest, &|k| attempt(k).0, case.key_seed, obs);
    }
}

fn judge(first: Attempt, exp: Expect, honest: Option<Vec<Vec<u8>>>, retry: &dyn Fn(u64) -> Attempt, key_seed: u64, obs: &mut Obs) {
    match (first, exp) {
        (Attempt::Panicked(f), _) => obs.fail(format!("mismatch-{}-{}", f.stage(), panic_sig(&f.describe())), format!("verification under a mismatch plan panicked: {}", f.describe())),
        (Attempt::Completed(outs), Expect::FinishHonest) => {
            obs.label("finished-as-expected");
            match honest {
                Some(h) if h == outs => {}
                Some(_) => obs.fail("consistent-substitution-changes-output", "all aggregators finished (as they must) but the output shares differ from the honest ones"),
                None => obs.fail("honest-run-failed", "the honest execution of the report failed"),
            }
        }
        (Attempt::Rejected(why), Expect::FinishHonest) => obs.fail("consistent-view-rejected", format!("every aggregator used a consistent, admissible view but verification failed: {why}")),
        (Attempt::Rejected(why), Expect::MustFail) => {
            obs.label("rejected-as-expected");
            obs.label(format!("rejected-at:{}", why.split('[').next().unwrap_or("")));
        }
        (Attempt::Completed(_), Expect::MustFail) => {
            let mut all = true;
            for k in 1..=3u64 {
                obs.label("soundness-retest");
                if !matches!(retry(key_seed.wrapping_mul(0x9E37).wrapping_add(k * 15485863) | 2), Attempt::Completed(_)) {
                    all = false;
                    break;
                }
            }
            if all {
                obs.fail("mismatch-accepted", "verification completed at every aggregator although the aggregators' contexts / nonces / keys / identifiers / algorithm ids do not match the report (4 independent verification keys)");
            } else {
                obs.label("soundness-fluke");
            }
        }
    }
}

fn poplar_run(case: &Case, bits: usize, input: &Bits, param: &AggParamSpec, obs: &mut Obs) {
    let vdaf = Poplar1::<XofTurboShake128, 32>::new(bits);
    let nonce: [u8; 16] = arr_from(case.nonce_seed);
    let rand = bytes_from(case.rand_seed, 32 + 96);
    let ap = match make_param(param) {
        Ok(a) => a,
        Err(e) => {
            obs.fail("param", e);
            return;
        }
    };
    let sh = match shard_wire(&vdaf, &case.ctx.0, &input.idpf(), &nonce, &rand) {
        Ok(s) => s,
        Err(f) => {
            obs.fail("honest-shard", format!("honest sharding failed: {}", f.describe()));
            return;
        }
    };
    let attempt = |key_seed: u64| -> (Attempt, Expect) {
        let mut views = build_views(case, 2, 6, key_seed);
        for v in views.iter_mut() {
            v.alg = 6; // Poplar1 has no configurable algorithm id
        }
        let exp = expectation(&views, &case.ctx.0, &nonce, 6, false);
        let mut states = vec![];
        let mut shares = vec![];
        for (j, v) in views.iter().enumerate() {
            let a = AggInput { agg_id: v.id, verify_key: v.key, ctx: v.ctx.clone(), nonce: v.nonce, public_share: sh.public_share.clone(), input_share: sh.input_shares[j].clone() };
            match init_wire(&vdaf, &ap, &a) {
                Ok(o) => {
                    states.push(o.state);
                    shares.push(o.verifier_share);
                }
                Err(f) if f.is_panic() => return (Attempt::Panicked(f), exp),
                Err(f) => return (Attempt::Rejected(f.describe()), exp),
            }
        }
        let mut outs: Vec<Option<Vec<u8>>> = vec![None, None];
        for _round in 0..3 {
            let mut next_states = vec![];
            let mut next_shares = vec![];
            for (j, st) in states.iter().enumerate() {
                let msg = match combine_wire(&vdaf, &views[j].ctx, &ap, st, &shares) {
                    Ok(m) => m,
                    Err(f) if f.is_panic() => return (Attempt::Panicked(f), exp),
                    Err(f) => return (Attempt::Rejected(f.describe()), exp),
                };
                match next_wire(&vdaf, j, &views[j].ctx, &ap, st.clone(), &msg) {
                    Ok(NextOut::Finish(b)) => outs[j] = Some(b),
                    Ok(NextOut::Continue(s, b)) => {
                        next_states.push(s);
                        next_shares.push(b);
                    }
                    Err(f) if f.is_panic() => return (Attempt::Panicked(f), exp),
                    Err(f) => return (Attempt::Rejected(f.describe()), exp),
                }
            }
            if next_states.is_empty() {
                break;
            }
            if next_states.len() != 2 {
                return (Attempt::Rejected("aggregators out of step".into()), exp);
            }
            states = next_states;
            shares = next_shares;
        }
        match (outs[0].take(), outs[1].take()) {
            (Some(a), Some(b)) => (Attempt::Completed(vec![a, b]), exp),
            _ => (Attempt::Rejected("no output".into()), exp),
        }
    };
    let honest = {
        let mut c = case.clone();
        c.plan.clear();
        let key: [u8; 32] = arr_from(case.key_seed);
        let inputs: Vec<AggInput> = (0..2).map(|j| AggInput { agg_id: j, verify_key: key, ctx: case.ctx.0.clone(), nonce, public_share: sh.public_share.clone(), input_share: sh.input_shares[j].clone() }).collect();
        crate::c03::verify_wire(&vdaf, &ap, &inputs, bits, None).ok()
    };
    let (first, exp) = attempt(case.key_seed);
    judge(first, exp, honest, &|k| attempt(k).0, case.key_seed, obs);
    let _ = <Poplar1<XofTurboShake128, 32> as Aggregator<32, 16>>::is_agg_param_valid;
}

fn who(n_hint: u8) -> BoxedStrategy<Who> {
    prop_oneof![3 => (0..n_hint).prop_map(Who::One), 2 => any::<u16>().prop_map(|m| Who::Several(m | 1)), 3 => Just(Who::AllSame)].boxed()
}

fn dev_strategy() -> BoxedStrategy<Dev> {
    prop_oneof![
        4 => (who(6), any::<u8>(), any::<u64>()).prop_map(|(who, how, rnd)| Dev::Ctx { who, how, rnd }),
        4 => (who(6), any::<u64>()).prop_map(|(who, rnd)| Dev::Nonce { who, rnd }),
        3 => (who(6), any::<u64>()).prop_map(|(who, rnd)| Dev::Key { who, rnd }),
        3 => (any::<u8>(), any::<u8>()).prop_map(|(agg, to)| Dev::AggId { agg, to }),
        2 => (who(6), any::<u32>()).prop_map(|(who, rnd)| Dev::AlgId { who, rnd }),
    ]
    .boxed()
}

impl Check for C18 {
    type Case = Case;
    const ID: &'static str = "C18";
    fn rule(&self) -> String {
        "proptest-generated honest report (Prio3 with and without joint randomness, 2..5+ aggregators; Poplar1 inner and leaf) plus a mismatch plan: 0..3 deviations among {context (bit flip / shortened / extended / replaced), nonce, verification key, aggregator identifier (share i processed as id j), algorithm identifier}, each applied to one aggregator, several (each to its own value) or all consistently; every aggregator runs init, combines the shares itself under its own context and finishes. Oracle from the plan: must fail, except — all roles/contexts/algorithm ids honest, keys consistent (any value) and nonces consistent with either the sharding nonce or, for Prio3 types without joint randomness, any common value — then all must finish with the honest output shares. Acceptance under a mismatch is reported only after 4 independent keys. Non-trivial = non-empty plan; distinct by case hash".into()
    }
    fn strategy(&self, tier: Tier) -> BoxedStrategy<Case> {
        let mut lim = Limits::small();
        lim.max_input_len = tier.pick(100, 600);
        lim.big_aggs = false;
        let target = prop_oneof![
            3 => (cfg_strategy(lim), any::<u8>(), any::<u64>()).prop_map(|(mut cfg, sel, ms)| {
                if cfg.n_agg < 2 {
                    cfg.n_agg = 2;
                }
                let meas = meas_from(&cfg.inst, sel, ms);
                Target::Prio3 { cfg, meas }
            }),
            2 => (1usize..=12, any::<u64>(), any::<u16>(), any::<u64>(), any::<bool>()).prop_map(|(bits, iseed, level, pseed, leaf)| {
                let input = Bits::from_seed(iseed, bits);
                let level = if leaf { bits - 1 } else { idx16(level, bits) };
                let mut prefixes = vec![input.prefix(level + 1), Bits::from_seed(pseed | 2, level + 1)];
                if pseed % 3 == 0 {
                    prefixes.remove(0);
                }
                prefixes.sort_by(|a, b| a.bools().cmp(&b.bools()));
                prefixes.dedup();
                Target::Poplar1 { bits, input, param: AggParamSpec { level, prefixes, heads: vec![] } }
            }),
        ];
        (target, ctx_strategy(), any::<u64>(), any::<u64>(), any::<u64>(), prop_oneof![1 => Just(vec![]), 6 => prop::collection::vec(dev_strategy(), 1..=1), 3 => prop::collection::vec(dev_strategy(), 2..=3)])
            .prop_map(|(target, ctx, key_seed, nonce_seed, rand_seed, plan)| Case { target, ctx, key_seed: key_seed | 2, nonce_seed: nonce_seed | 2, rand_seed: rand_seed | 2, plan })
            .boxed()
    }
    fn num_cases(&self, tier: Tier) -> u64 {
        tier.pick(40_000, 800_000)
    }
    fn run(&self, case: &Case) -> Outcome {
        let mut obs = Obs::new();
        if !case.plan.is_empty() {
            obs.nt();
        }
        for d in &case.plan {
            let (kind, w) = match d {
                Dev::Ctx { who, .. } => ("ctx", Some(who)),
                Dev::Nonce { who, .. } => ("nonce", Some(who)),
                Dev::Key { who, .. } => ("key", Some(who)),
                Dev::AggId { .. } => ("agg-id", None),
                Dev::AlgId { who, .. } => ("alg-id", Some(who)),
            };
            obs.label(format!(
                "mismatch:{kind}:{}",
                match w {
                    Some(Who::One(_)) => "one",
                    Some(Who::Several(_)) => "several",
                    Some(Who::AllSame) => "all-consistently",
                    None => "role",
                }
            ));
        }
        match &case.target {
            Target::Prio3 { cfg, meas } => {
                obs.label(if cfg.inst.has_joint_rand() { "prio3:joint-rand" } else { "prio3:no-joint-rand" });
                if let Err(e) = with_vdaf(cfg, P3Run { case, cfg, meas, obs: &mut obs }) {
                    obs.fail("constructor-refused-admissible-parameters", e);
                }
            }
            Target::Poplar1 { bits, input, param } => {
                obs.label(if param.level == bits - 1 { "poplar1:leaf" } else { "poplar1:inner" });
                poplar_run(case, *bits, input, param, &mut obs);
            }
        }
        obs.finish()
    }
}
