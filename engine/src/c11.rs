//! C11 — seed streams are chunking-independent; field sampling follows the spec exactly.

use crate::harness::*;
use crate::util::*;
use num_bigint::BigUint;
use num_traits::One;
use prio::field::{Field128, Field255, Field64, FieldPrio2};
use prio::idpf::IdpfValue;
use prio::vdaf::poplar1::Poplar1IdpfValue;
use prio::vdaf::xof::{IntoFieldVec, Xof, XofFixedKeyAes128, XofFixedKeyAes128Key, XofHmacSha256Aes128, XofTurboShake128};
use prio::codec::Encode;
use proptest::prelude::*;
use rand_core::Rng;
use serde::{Deserialize, Serialize};

pub struct C11;

#[derive(Clone, Copy, Debug, Serialize, Deserialize, PartialEq, Eq)]
pub enum XofSel {
    Turbo,
    Aes,
    Hmac,
}

#[derive(Clone, Copy, Debug, Serialize, Deserialize, PartialEq, Eq)]
pub enum Fld {
    F32,
    F64,
    F128,
    F255,
}

/// Class of one element-sized chunk of the tape.
#[derive(Clone, Copy, Debug, Serialize, Deserialize, PartialEq, Eq)]
pub enum Chunk {
    /// uniformly random canonical value
    Canon(u64),
    /// a value ≥ p after masking (rejected)
    Rejected(u64),
    PMinus1,
    P,
    PPlus1,
    /// canonical value with the bits above the modulus length set (only Field255 masks them)
    HighBits(u64),
    Zero,
    AllOnes,
}

#[derive(Clone, Debug, Serialize, Deserialize)]
pub enum Case {
    Chunking { xof: XofSel, seed: u64, dst: Hex, binder: Hex, dst_cuts: Vec<u16>, binder_cuts: Vec<u16>, reads: Vec<u16> },
    Sampling { field: Fld, tape: Vec<Chunk>, out_len: usize, filler: u64 },
    /// IdpfValue::generate on a tape (one element-sized read per attempt)
    Generate { field: Fld, pair: bool, tape: Vec<Chunk>, filler: u64 },
}

fn split(data: &[u8], cuts: &[u16]) -> Vec<Vec<u8>> {
    let mut pts: Vec<usize> = cuts.iter().map(|c| idx16(*c, data.len() + 1)).collect();
    pts.sort();
    let mut out = vec![];
    let mut prev = 0;
    for p in pts {
        out.push(data[prev..p].to_vec());
        prev = p;
    }
    out.push(data[prev..].to_vec());
    out
}

fn chunking_generic<P: Xof<K>, const K: usize>(seed: &[u8; K], dst: &[u8], binder: &[u8], dst_parts: &[Vec<u8>], binder_parts: &[Vec<u8>], reads: &[usize], obs: &mut Obs) -> Option<Vec<u8>> {
    let total: usize = reads.iter().sum();
    // reference: unsplit construction, one read
    let mut reference = vec![0u8; total.max(K)];
    {
        let mut x = P::init(seed, &[dst]);
        x.update(binder);
        x.into_seed_stream().fill_bytes(&mut reference);
    }
    // split construction, many reads
    let parts: Vec<&[u8]> = dst_parts.iter().map(|v| &v[..]).collect();
    let mut x = P::init(seed, &parts);
    for b in binder_parts {
        x.update(b);
    }
    let derived_seed = x.clone().into_seed();
    let mut stream = x.into_seed_stream();
    let mut got = vec![];
    for (k, r) in reads.iter().enumerate() {
        // 4- and 8-byte reads at even positions of the sequence go through the word methods
        // (little-endian by the rand_core convention), everything else through fill_bytes
        match (*r, k % 2) {
            (4, 0) => got.extend_from_slice(&stream.next_u32().to_le_bytes()),
            (8, 0) => got.extend_from_slice(&stream.next_u64().to_le_bytes()),
            _ => {
                let mut buf = vec![0xAAu8; *r];
                stream.fill_bytes(&mut buf);
                got.extend_from_slice(&buf);
            }
        }
    }
    if got != reference[..total] {
        let i = got.iter().zip(&reference).position(|(a, b)| a != b).unwrap_or(0);
        obs.fail("stream-depends-on-chunking", format!("seed stream differs from the single-read stream of the unsplit construction from byte {i} (reads {reads:?}, dst parts {:?}, binder parts {:?})", dst_parts.iter().map(|p| p.len()).collect::<Vec<_>>(), binder_parts.iter().map(|p| p.len()).collect::<Vec<_>>()));
        return None;
    }
    if derived_seed.as_ref()[..] != reference[..K] {
        obs.fail("into-seed-not-stream-prefix", "into_seed() is not the first SEED_SIZE bytes of the stream");
        return None;
    }
    // seed_stream() convenience entry point
    let binders: Vec<&[u8]> = binder_parts.iter().map(|v| &v[..]).collect();
    let mut s2 = P::seed_stream(seed, &parts, &binders);
    let mut b2 = vec![0u8; total];
    s2.fill_bytes(&mut b2);
    if b2 != reference[..total] {
        obs.fail("seed-stream-entry-point-differs", "Xof::seed_stream differs from init/update/into_seed_stream");
        return None;
    }
    Some(reference)
}

fn field_params(f: Fld) -> (usize, BigUint, usize) {
    // (encoded size, modulus, modulus bit length)
    match f {
        Fld::F32 => (4, FieldPrio2::modulus_big(), 32),
        Fld::F64 => (8, Field64::modulus_big(), 64),
        Fld::F128 => (16, Field128::modulus_big(), 128),
        Fld::F255 => (32, Field255::modulus_big(), 255),
    }
}

fn chunk_bytes(f: Fld, c: Chunk) -> Vec<u8> {
    let (sz, p, bits) = field_params(f);
    let full = (BigUint::one() << (8 * sz)) - 1u32;
    let le = |v: &BigUint| {
        let mut b = v.to_bytes_le();
        b.resize(sz, 0);
        b
    };
    match c {
        Chunk::Canon(s) => le(&(BigUint::from_bytes_le(&expand(s, 3, sz + 8)) % &p)),
        Chunk::Rejected(s) => {
            // a value in [p, 2^bits)
            let span = (BigUint::one() << bits) - &p;
            le(&(&p + BigUint::from_bytes_le(&expand(s, 4, sz + 8)) % &span))
        }
        Chunk::PMinus1 => le(&(&p - 1u32)),
        Chunk::P => le(&p),
        Chunk::PPlus1 => le(&(&p + 1u32)),
        Chunk::HighBits(s) => {
            let v = BigUint::from_bytes_le(&expand(s, 5, sz + 8)) % &p;
            // set every bit above the modulus length (none for the word-sized fields)
            let hi = &full ^ ((BigUint::one() << bits) - 1u32);
            le(&(v | hi))
        }
        Chunk::Zero => vec![0; sz],
        Chunk::AllOnes => vec![0xFF; sz],
    }
}

/// The spec's rule: successive chunks, little-endian, masked to the modulus bit length, discarded
/// when not below the modulus.
fn model_sample(f: Fld, stream: &dyn Fn(usize) -> u8, want: usize) -> (Vec<BigUint>, usize, Vec<usize>) {
    let (sz, p, bits) = field_params(f);
    let mask = (BigUint::one() << bits) - 1u32;
    let mut out = vec![];
    let mut pos = 0usize;
    let mut rejected_at = vec![];
    let mut idx = 0usize;
    while out.len() < want {
        let chunk: Vec<u8> = (0..sz).map(|i| stream(pos + i)).collect();
        pos += sz;
        let v = BigUint::from_bytes_le(&chunk) & &mask;
        if v < p {
            out.push(v);
        } else {
            rejected_at.push(idx);
        }
        idx += 1;
    }
    (out, pos, rejected_at)
}

fn sampling_generic<F: FieldBig>(f: Fld, tape_bytes: Vec<u8>, out_len: usize, filler: u64, obs: &mut Obs) {
    let rng = TapeRng::new(tape_bytes, filler);
    let model_rng = rng.clone();
    let (want, consumed, rejected_at) = model_sample(f, &|i| model_rng.byte_at(i), out_len);
    let got: Vec<F> = match guard(|| rng.into_field_vec::<F>(out_len)) {
        Ok(v) => v,
        Err(p) => {
            obs.fail(format!("into-field-vec-{}", panic_sig(&p)), format!("into_field_vec panicked: {p}"));
            return;
        }
    };
    let got_big: Vec<BigUint> = got.iter().map(|x| x.to_big()).collect();
    if got_big != want {
        let i = got_big.iter().zip(&want).position(|(a, b)| a != b).unwrap_or(got_big.len().min(want.len()));
        obs.fail(format!("{}-sampling", F::NAME), format!("{}: element {i} of {out_len} is {:?} but the specified sampling rule gives {:?} (rejections at chunk indices {rejected_at:?})", F::NAME, got_big.get(i), want.get(i)));
        return;
    }
    if !rejected_at.is_empty() {
        obs.nt();
        obs.label(format!("{}:rejection", F::NAME));
        for r in &rejected_at {
            obs.label(format!("rejection-at-buffer-slot:{}", r % 32));
        }
        if rejected_at.iter().any(|r| r % 32 == 31) && consumed > 32 * F::ENCODED_SIZE {
            obs.label("rejection-at-last-slot-before-refill");
        }
        if rejected_at.windows(2).any(|w| w[1] == w[0] + 1 && w[0] % 32 == 31) {
            obs.label("rejection-run-straddling-refill");
        }
    }
    if out_len > 32 {
        obs.label("output-spans-refill");
    }
}

fn generate_generic<F: FieldBig>(f: Fld, pair: bool, tape_bytes: Vec<u8>, filler: u64, obs: &mut Obs) {
    let mut rng = TapeRng::new(tape_bytes, filler);
    let model_rng = rng.clone();
    let n = if pair { 2 } else { 1 };
    let (want, consumed, rejected_at) = model_sample(f, &|i| model_rng.byte_at(i), n);
    let got_bytes = match guard(|| {
        if pair {
            Poplar1IdpfValue::<F>::generate(&mut rng, &()).get_encoded().unwrap()
        } else {
            <F as IdpfValue>::generate(&mut rng, &()).get_encoded().unwrap()
        }
    }) {
        Ok(b) => b,
        Err(p) => {
            obs.fail(format!("generate-{}", panic_sig(&p)), format!("IdpfValue::generate panicked: {p}"));
            return;
        }
    };
    let got: Vec<BigUint> = got_bytes.chunks(F::ENCODED_SIZE).map(BigUint::from_bytes_le).collect();
    if got != want {
        obs.fail(format!("{}-generate", F::NAME), format!("{}: IdpfValue::generate gives {got:?}, the sampling rule gives {want:?} (rejected chunks {rejected_at:?})", F::NAME));
        return;
    }
    // one element-sized read per attempt, nothing more
    if rng.pos != consumed || rng.reads.iter().any(|r| *r != F::ENCODED_SIZE) {
        obs.fail(format!("{}-generate-consumption", F::NAME), format!("{}: IdpfValue::generate consumed {} bytes in reads {:?}; the rule consumes {consumed} in element-sized reads", F::NAME, rng.pos, rng.reads));
        return;
    }
    if !rejected_at.is_empty() {
        obs.nt();
        obs.label(format!("{}:generate-rejection", F::NAME));
    }
}

fn chunk_strategy() -> BoxedStrategy<Chunk> {
    prop_oneof![
        6 => any::<u64>().prop_map(Chunk::Canon),
        6 => any::<u64>().prop_map(Chunk::Rejected),
        1 => Just(Chunk::PMinus1),
        1 => Just(Chunk::P),
        1 => Just(Chunk::PPlus1),
        2 => any::<u64>().prop_map(Chunk::HighBits),
        1 => Just(Chunk::Zero),
        1 => Just(Chunk::AllOnes),
    ]
    .boxed()
}

fn fld() -> BoxedStrategy<Fld> {
    prop_oneof![Just(Fld::F32), Just(Fld::F64), Just(Fld::F128), Just(Fld::F255)].boxed()
}

fn read_size() -> BoxedStrategy<u16> {
    prop_oneof![
        8 => proptest::sample::select(vec![0u16, 1, 2, 4, 4, 8, 8, 15, 16, 17, 31, 32, 33, 47, 48, 64, 255, 256]),
        3 => 0u16..600,
    ]
    .boxed()
}

impl Check for C11 {
    type Case = Case;
    const ID: &'static str = "C11";
    fn rule(&self) -> String {
        "(chunking) for XofTurboShake128, XofFixedKeyAes128 (trait path and XofFixedKeyAes128Key::with_seed) and XofHmacSha256Aes128: generated seed, tag and binder, generated cut points splitting the tag into parts and the binder into update calls (empty parts included), generated sequence of read sizes from {0,1,2,4,8,15,16,17,31,32,33,47,48,64,255,256} ∪ random (total ≤ 8 KiB; 4- and 8-byte reads alternately through next_u32/next_u64 and fill_bytes): concatenated reads = one read of the unsplit construction, into_seed = stream prefix, entry points agree. (sampling) IntoFieldVec on a tape RNG whose element-sized chunks are drawn from {canonical, ≥ p after masking, p−1, p, p+1, high bits set, zero, all-ones}, with enumerated tapes that put a rejected chunk at every slot of the 32-element buffer and runs straddling a refill, for all four fields and output lengths 0..100, against the specified rule (little-endian chunk, clear bits above the modulus length, discard if ≥ p); IdpfValue::generate likewise incl. its read pattern. Non-trivial = ≥ 2 parts and ≥ 2 unaligned reads, or ≥ 1 rejection; distinct by case hash".into()
    }
    fn strategy(&self, _tier: Tier) -> BoxedStrategy<Case> {
        let chunking = (
            prop_oneof![Just(XofSel::Turbo), Just(XofSel::Aes), Just(XofSel::Hmac)],
            any::<u64>(),
            prop_oneof![hexbytes(0..=24), hexbytes(0..=200)],
            prop_oneof![hexbytes(0..=40), hexbytes(0..=300)],
            proptest::collection::vec(any::<u16>(), 0..=4),
            proptest::collection::vec(any::<u16>(), 0..=5),
            proptest::collection::vec(read_size(), 1..=14),
        )
            .prop_map(|(xof, seed, dst, binder, dst_cuts, binder_cuts, reads)| Case::Chunking { xof, seed, dst, binder, dst_cuts, binder_cuts, reads });
        let sampling = (fld(), proptest::collection::vec(chunk_strategy(), 0..=140), 0usize..=100, any::<u64>()).prop_map(|(field, tape, out_len, filler)| Case::Sampling { field, tape, out_len, filler });
        let generate = (fld(), any::<bool>(), proptest::collection::vec(chunk_strategy(), 0..=6), any::<u64>()).prop_map(|(field, pair, tape, filler)| Case::Generate { field, pair, tape, filler });
        prop_oneof![5 => chunking, 5 => sampling, 2 => generate].boxed()
    }
    fn num_cases(&self, tier: Tier) -> u64 {
        tier.pick(600_000, 12_000_000)
    }
    fn enumerate(&self, _tier: Tier, shard: usize, nshards: usize, f: &mut dyn FnMut(Case) -> bool) {
        // a rejected chunk at every slot of the look-ahead buffer, alone and in runs of 2..3 that
        // straddle the refill, for every field
        let mut cases = vec![];
        for field in [Fld::F32, Fld::F64, Fld::F128, Fld::F255] {
            for slot in 0..70usize {
                for run in 1..=3usize {
                    let mut tape: Vec<Chunk> = (0..slot).map(|i| Chunk::Canon(1000 + i as u64)).collect();
                    for r in 0..run {
                        tape.push(match (slot + r) % 4 {
                            0 => Chunk::Rejected(7 + r as u64),
                            1 => Chunk::P,
                            2 => Chunk::AllOnes,
                            _ => Chunk::PPlus1,
                        });
                    }
                    tape.push(Chunk::PMinus1);
                    for out_len in [slot + 1, slot + 2, 33, 64] {
                        cases.push(Case::Sampling { field, tape: tape.clone(), out_len, filler: 99 });
                    }
                }
            }
            for pair in [false, true] {
                for k in 0..4usize {
                    let mut tape: Vec<Chunk> = (0..k).map(|i| if i % 2 == 0 { Chunk::P } else { Chunk::AllOnes }).collect();
                    tape.push(Chunk::HighBits(5));
                    tape.push(Chunk::Rejected(3));
                    tape.push(Chunk::PMinus1);
                    cases.push(Case::Generate { field, pair, tape, filler: 5 });
                }
            }
        }
        for (i, c) in cases.into_iter().enumerate() {
            if i % nshards == shard && !f(c) {
                return;
            }
        }
    }
    fn enumerated_space(&self, _tier: Tier) -> Option<String> {
        Some("4 fields × rejected chunk at every buffer slot 0..69 × runs of 1..3 rejections × 4 output lengths; IdpfValue::generate with 0..3 leading rejections".into())
    }
    fn run(&self, case: &Case) -> Outcome {
        let mut obs = Obs::new();
        match case {
            Case::Chunking { xof, seed, dst, binder, dst_cuts, binder_cuts, reads } => {
                obs.label(format!("chunking:{xof:?}"));
                let mut dstb = dst.0.clone();
                if *xof == XofSel::Hmac {
                    dstb.truncate(255);
                }
                let dst_parts = split(&dstb, dst_cuts);
                let binder_parts = split(&binder.0, binder_cuts);
                let mut reads: Vec<usize> = reads.iter().map(|r| *r as usize).collect();
                // total ≤ 8 KiB
                let mut tot = 0usize;
                reads.retain(|r| {
                    tot += r;
                    tot <= 8192
                });
                let unaligned = reads.iter().scan(0usize, |acc, r| {
                    let start = *acc;
                    *acc += r;
                    Some(start)
                }).filter(|s| s % 16 != 0).count();
                if (dst_parts.len() >= 2 || binder_parts.len() >= 2) && unaligned >= 2 {
                    obs.nt();
                }
                if unaligned >= 1 {
                    obs.label("read-starting-mid-block");
                }
                if dst_parts.iter().any(|p| p.is_empty()) || binder_parts.iter().any(|p| p.is_empty()) {
                    obs.label("empty-part");
                }
                let r = guard(|| match xof {
                    XofSel::Turbo => chunking_generic::<XofTurboShake128, 32>(&expand_arr::<32>(*seed, 1), &dstb, &binder.0, &dst_parts, &binder_parts, &reads, &mut obs).map(|_| ()),
                    XofSel::Hmac => chunking_generic::<XofHmacSha256Aes128, 32>(&expand_arr::<32>(*seed, 1), &dstb, &binder.0, &dst_parts, &binder_parts, &reads, &mut obs).map(|_| ()),
                    XofSel::Aes => {
                        let s: [u8; 16] = expand_arr::<16>(*seed, 1);
                        if let Some(reference) = chunking_generic::<XofFixedKeyAes128, 16>(&s, &dstb, &binder.0, &dst_parts, &binder_parts, &reads, &mut obs) {
                            // the reusable-key entry point agrees with the trait path
                            let parts: Vec<&[u8]> = dst_parts.iter().map(|v| &v[..]).collect();
                            let key = XofFixedKeyAes128Key::new(&parts, &binder.0);
                            let mut st = key.with_seed(&s);
                            let mut got = vec![];
                            for (k, r) in reads.iter().enumerate() {
                                match (*r, k % 2) {
                                    (4, 1) => got.extend_from_slice(&st.next_u32().to_le_bytes()),
                                    (8, 1) => got.extend_from_slice(&st.next_u64().to_le_bytes()),
                                    _ => {
                                        let mut buf = vec![0u8; *r];
                                        st.fill_bytes(&mut buf);
                                        got.extend_from_slice(&buf);
                                    }
                                }
                            }
                            if got != reference[..got.len()] {
                                obs.fail("fixed-key-entry-points-differ", "XofFixedKeyAes128Key::with_seed stream differs from the Xof trait path");
                            }
                        }
                        Some(())
                    }
                });
                if let Err(p) = r {
                    obs.fail(format!("xof-{}", panic_sig(&p)), format!("XOF panicked: {p}"));
                }
            }
            Case::Sampling { field, tape, out_len, filler } => {
                obs.label(format!("sampling:{field:?}"));
                let bytes: Vec<u8> = tape.iter().flat_map(|c| chunk_bytes(*field, *c)).collect();
                match field {
                    Fld::F32 => sampling_generic::<FieldPrio2>(*field, bytes, *out_len, *filler, &mut obs),
                    Fld::F64 => sampling_generic::<Field64>(*field, bytes, *out_len, *filler, &mut obs),
                    Fld::F128 => sampling_generic::<Field128>(*field, bytes, *out_len, *filler, &mut obs),
                    Fld::F255 => sampling_generic::<Field255>(*field, bytes, *out_len, *filler, &mut obs),
                }
            }
            Case::Generate { field, pair, tape, filler } => {
                obs.label(format!("generate:{field:?}"));
                let bytes: Vec<u8> = tape.iter().flat_map(|c| chunk_bytes(*field, *c)).collect();
                match field {
                    Fld::F32 => generate_generic::<FieldPrio2>(*field, *pair, bytes, *filler, &mut obs),
                    Fld::F64 => generate_generic::<Field64>(*field, *pair, bytes, *filler, &mut obs),
                    Fld::F128 => generate_generic::<Field128>(*field, *pair, bytes, *filler, &mut obs),
                    Fld::F255 => generate_generic::<Field255>(*field, *pair, bytes, *filler, &mut obs),
                }
            }
        }
        obs.finish()
    }
}
