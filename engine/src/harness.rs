//! Shared machinery: the `Check` trait, the seeded parallel proptest driver, shrinking to a replay
//! file, corpus replay, exhaustive enumerators, evidence writer, known-findings matcher, panic and
//! allocation capture, watchdog.

use proptest::strategy::{BoxedStrategy, Strategy};
use proptest::test_runner::{Config, RngAlgorithm, TestCaseError, TestError, TestRng, TestRunner};
use serde::{de::DeserializeOwned, Serialize};
use serde_json::{json, Value};
use std::alloc::{GlobalAlloc, Layout, System};
use std::cell::{Cell, RefCell};
use std::collections::{BTreeMap, HashSet};
use std::fmt::Debug;
use std::hash::{Hash, Hasher};
use std::panic::{catch_unwind, AssertUnwindSafe};
use std::path::{Path, PathBuf};
use std::sync::atomic::{AtomicBool, AtomicU64, Ordering};
use std::sync::{Arc, Mutex};
use std::time::{Duration, Instant};

/// Root of the verification tree (evidence, replays, corpus, known findings). Always /verif for the
/// registered commands; the mutant-evaluation slots (tools/slot.sh) point it elsewhere.
pub static VERIF_ROOT_DEFAULT: &str = "/verif";
pub fn verif_root() -> String {
    std::env::var("PV_ROOT").unwrap_or_else(|_| VERIF_ROOT_DEFAULT.to_string())
}

#[derive(Clone, Copy, Debug, PartialEq, Eq)]
pub enum Tier {
    Quick,
    Thorough,
}

impl Tier {
    pub fn name(self) -> &'static str {
        match self {
            Tier::Quick => "quick",
            Tier::Thorough => "thorough",
        }
    }
    pub fn pick<T>(self, q: T, t: T) -> T {
        match self {
            Tier::Quick => q,
            Tier::Thorough => t,
        }
    }
}

#[derive(Clone, Debug)]
pub enum Verdict {
    Pass,
    /// `sig` is a stable signature (entry point + oracle clause / panic location) used for the
    /// known-findings match; `what` is the human-readable description.
    Violation { sig: String, what: String },
}

#[derive(Clone, Debug)]
pub struct Outcome {
    pub verdict: Verdict,
    pub labels: Vec<String>,
    pub nontrivial: bool,
    /// Number of inner evaluations this case stands for (1 unless the case is a block of an
    /// enumerated space).
    pub evals: u64,
    /// For block cases: the number of distinct non-trivial inner evaluations (they are distinct by
    /// construction of the enumeration).
    pub inner_nontrivial: u64,
    /// Hashes of non-trivial inner evaluations whose distinctness must be measured.
    pub inner_hashes: Vec<u64>,
}

impl Outcome {
    pub fn pass() -> Self {
        Outcome {
            verdict: Verdict::Pass,
            labels: vec![],
            nontrivial: false,
            evals: 1,
            inner_nontrivial: 0,
            inner_hashes: vec![],
        }
    }
    pub fn violation(sig: impl Into<String>, what: impl Into<String>) -> Self {
        Outcome {
            verdict: Verdict::Violation {
                sig: sig.into(),
                what: what.into(),
            },
            labels: vec![],
            nontrivial: true,
            evals: 1,
            inner_nontrivial: 0,
            inner_hashes: vec![],
        }
    }
    pub fn label(mut self, l: impl Into<String>) -> Self {
        self.labels.push(l.into());
        self
    }
    pub fn nontrivial(mut self, b: bool) -> Self {
        self.nontrivial = b;
        self
    }
    pub fn is_violation(&self) -> bool {
        matches!(self.verdict, Verdict::Violation { .. })
    }
}

/// A small accumulator used inside `run` functions.
pub struct Obs {
    pub labels: Vec<String>,
    pub nontrivial: bool,
    pub evals: u64,
    pub inner_nontrivial: u64,
    pub inner_hashes: Vec<u64>,
    pub violation: Option<(String, String)>,
}

impl Obs {
    pub fn new() -> Self {
        Obs {
            labels: vec![],
            nontrivial: false,
            evals: 1,
            inner_nontrivial: 0,
            inner_hashes: vec![],
            violation: None,
        }
    }
    pub fn label(&mut self, l: impl Into<String>) {
        let l = l.into();
        if !self.labels.contains(&l) {
            self.labels.push(l);
        }
    }
    pub fn nt(&mut self) {
        self.nontrivial = true;
    }
    /// Record a violation (only the first is kept).
    pub fn fail(&mut self, sig: impl Into<String>, what: impl Into<String>) {
        if self.violation.is_none() {
            self.violation = Some((sig.into(), what.into()));
        }
    }
    pub fn failed(&self) -> bool {
        self.violation.is_some()
    }
    pub fn finish(self) -> Outcome {
        Outcome {
            verdict: match self.violation {
                None => Verdict::Pass,
                Some((sig, what)) => Verdict::Violation { sig, what },
            },
            labels: self.labels,
            nontrivial: self.nontrivial,
            evals: self.evals,
            inner_nontrivial: self.inner_nontrivial,
            inner_hashes: self.inner_hashes,
        }
    }
}

pub trait Check: Sync + Send + 'static {
    type Case: Clone + Debug + Serialize + DeserializeOwned + Send + Sync + 'static;
    const ID: &'static str;
    /// How cases are generated and what makes one non-trivial.
    fn rule(&self) -> String;
    fn assumptions(&self) -> Vec<String> {
        vec![]
    }
    fn strategy(&self, tier: Tier) -> BoxedStrategy<Self::Case>;
    /// Number of generated cases (total over all workers).
    fn num_cases(&self, tier: Tier) -> u64;
    fn run(&self, case: &Self::Case) -> Outcome;
    /// Enumerated sub-space: call `f` for every element of shard `shard` of `nshards`. Return
    /// early when `f` returns false.
    fn enumerate(
        &self,
        _tier: Tier,
        _shard: usize,
        _nshards: usize,
        _f: &mut dyn FnMut(Self::Case) -> bool,
    ) {
    }
    /// Description of the enumerated sub-space (None when there is none).
    fn enumerated_space(&self, _tier: Tier) -> Option<String> {
        None
    }
    /// Built-in regression cases (in addition to /verif/corpus/<id>/*.json).
    fn builtin_corpus(&self) -> Vec<Self::Case> {
        vec![]
    }
    fn max_shrink_iters(&self) -> u32 {
        4000
    }
    /// Per-case watchdog in seconds.
    fn case_timeout_s(&self, tier: Tier) -> u64 {
        tier.pick(300, 1800)
    }
    /// Extra, property-specific evidence fields.
    fn extra_evidence(&self) -> Value {
        Value::Null
    }
}

// ------------------------------------------------------------------------------------------------
// Panic capture

thread_local! {
    static QUIET: Cell<bool> = const { Cell::new(false) };
    static LAST_PANIC: RefCell<Option<String>> = const { RefCell::new(None) };
}

pub fn install_panic_hook() {
    let default = std::panic::take_hook();
    std::panic::set_hook(Box::new(move |info| {
        let loc = info
            .location()
            .map(|l| format!("{}:{}", l.file(), l.line()))
            .unwrap_or_else(|| "?".into());
        let msg = if let Some(s) = info.payload().downcast_ref::<&str>() {
            s.to_string()
        } else if let Some(s) = info.payload().downcast_ref::<String>() {
            s.clone()
        } else {
            "<non-string panic>".into()
        };
        LAST_PANIC.with(|p| *p.borrow_mut() = Some(format!("{loc}: {msg}")));
        if !QUIET.with(|q| q.get()) {
            default(info);
        }
    }));
}

/// Run `f`, turning a panic into `Err("file:line: message")`.
pub fn guard<T>(f: impl FnOnce() -> T) -> Result<T, String> {
    let prev = QUIET.with(|q| q.replace(true));
    let r = catch_unwind(AssertUnwindSafe(f));
    QUIET.with(|q| q.set(prev));
    match r {
        Ok(v) => Ok(v),
        Err(_) => Err(LAST_PANIC
            .with(|p| p.borrow_mut().take())
            .unwrap_or_else(|| "panic".into())),
    }
}

/// Like `guard` but hands back the panic payload (for control-flow panics with typed payloads).
pub fn guard_any<T>(f: impl FnOnce() -> T) -> Result<T, Box<dyn std::any::Any + Send>> {
    let prev = QUIET.with(|q| q.replace(true));
    let r = catch_unwind(AssertUnwindSafe(f));
    QUIET.with(|q| q.set(prev));
    r
}

/// Signature of a panic message: the location with the repo prefix stripped, no message text that
/// may contain values.
pub fn panic_sig(p: &str) -> String {
    let loc = p.split(": ").next().unwrap_or(p);
    let loc = loc.strip_prefix("/repo/").unwrap_or(loc);
    format!("panic@{loc}")
}

// ------------------------------------------------------------------------------------------------
// Allocation tracking (thread-local, only while armed)

pub struct TrackingAlloc;

thread_local! {
    static A_ARMED: Cell<bool> = const { Cell::new(false) };
    static A_LIVE: Cell<usize> = const { Cell::new(0) };
    static A_PEAK: Cell<usize> = const { Cell::new(0) };
    static A_MAXREQ: Cell<usize> = const { Cell::new(0) };
}

/// Single requests above this size are refused (null) while armed, which makes the process abort
/// deterministically instead of depending on the kernel's overcommit policy.
pub const ALLOC_HARD_CAP: usize = 1 << 31;

unsafe impl GlobalAlloc for TrackingAlloc {
    unsafe fn alloc(&self, layout: Layout) -> *mut u8 {
        let armed = A_ARMED.try_with(|a| a.get()).unwrap_or(false);
        if armed {
            let sz = layout.size();
            let _ = A_MAXREQ.try_with(|m| {
                if sz > m.get() {
                    m.set(sz)
                }
            });
            if sz > ALLOC_HARD_CAP {
                return std::ptr::null_mut();
            }
            let _ = A_LIVE.try_with(|l| {
                let v = l.get().saturating_add(sz);
                l.set(v);
                let _ = A_PEAK.try_with(|p| {
                    if v > p.get() {
                        p.set(v)
                    }
                });
            });
        }
        System.alloc(layout)
    }
    unsafe fn dealloc(&self, ptr: *mut u8, layout: Layout) {
        let armed = A_ARMED.try_with(|a| a.get()).unwrap_or(false);
        if armed {
            let _ = A_LIVE.try_with(|l| l.set(l.get().saturating_sub(layout.size())));
        }
        System.dealloc(ptr, layout)
    }
    unsafe fn realloc(&self, ptr: *mut u8, layout: Layout, new_size: usize) -> *mut u8 {
        let armed = A_ARMED.try_with(|a| a.get()).unwrap_or(false);
        if armed {
            let _ = A_MAXREQ.try_with(|m| {
                if new_size > m.get() {
                    m.set(new_size)
                }
            });
            if new_size > ALLOC_HARD_CAP {
                return std::ptr::null_mut();
            }
            let _ = A_LIVE.try_with(|l| {
                let v = l.get().saturating_sub(layout.size()).saturating_add(new_size);
                l.set(v);
                let _ = A_PEAK.try_with(|p| {
                    if v > p.get() {
                        p.set(v)
                    }
                });
            });
        }
        System.realloc(ptr, layout, new_size)
    }
}

pub struct AllocStats {
    pub peak: usize,
    pub max_request: usize,
}

/// Run `f` with allocation tracking armed on this thread; peak is measured relative to entry.
pub fn track_alloc<T>(f: impl FnOnce() -> T) -> (T, AllocStats) {
    A_LIVE.with(|l| l.set(0));
    A_PEAK.with(|l| l.set(0));
    A_MAXREQ.with(|l| l.set(0));
    A_ARMED.with(|a| a.set(true));
    struct Disarm;
    impl Drop for Disarm {
        fn drop(&mut self) {
            A_ARMED.with(|a| a.set(false));
        }
    }
    let d = Disarm;
    let r = f();
    drop(d);
    let st = AllocStats {
        peak: A_PEAK.with(|p| p.get()),
        max_request: A_MAXREQ.with(|p| p.get()),
    };
    (r, st)
}

// ------------------------------------------------------------------------------------------------
// Known findings

#[derive(Clone, Debug)]
pub struct KnownFinding {
    pub property: String,
    pub key: String,
    pub what: String,
}

pub fn load_known_findings() -> Vec<KnownFinding> {
    let path = Path::new(&verif_root()).join("known_findings.txt");
    let mut out = vec![];
    if let Ok(s) = std::fs::read_to_string(path) {
        for line in s.lines() {
            let line = line.trim();
            if let Some(rest) = line.strip_prefix("finding:") {
                let rest = rest.trim();
                let mut property = String::new();
                let mut key = String::new();
                let mut what = vec![];
                for tok in rest.split_whitespace() {
                    if let Some(p) = tok.strip_prefix("property=") {
                        if property.is_empty() {
                            property = p.to_string();
                            continue;
                        }
                    }
                    if let Some(k) = tok.strip_prefix("key=") {
                        if key.is_empty() {
                            key = k.to_string();
                            continue;
                        }
                    }
                    what.push(tok);
                }
                if !property.is_empty() && !key.is_empty() {
                    out.push(KnownFinding {
                        property,
                        key,
                        what: what.join(" "),
                    });
                }
            }
        }
    }
    out
}

// ------------------------------------------------------------------------------------------------
// Utilities

pub fn hash64<T: Hash>(t: &T) -> u64 {
    let mut h = std::collections::hash_map::DefaultHasher::new();
    t.hash(&mut h);
    h.finish()
}

pub fn case_hash<C: Serialize>(c: &C) -> u64 {
    let s = serde_json::to_string(c).unwrap_or_default();
    hash64(&s)
}

pub fn seed_bytes(seed: u64, id: &str, worker: u64, stream: u64) -> [u8; 32] {
    let mut out = [0u8; 32];
    for i in 0..4u64 {
        let h = hash64(&(seed, id, worker, stream, i, 0x9e3779b97f4a7c15u64));
        out[(i as usize) * 8..(i as usize + 1) * 8].copy_from_slice(&h.to_le_bytes());
    }
    out
}

pub fn env_u64(name: &str, default: u64) -> u64 {
    std::env::var(name)
        .ok()
        .and_then(|s| s.trim().parse::<u64>().ok())
        .unwrap_or(default)
}

pub fn jobs() -> usize {
    let n = env_u64("PV_JOBS", 0) as usize;
    if n > 0 {
        n
    } else {
        std::thread::available_parallelism()
            .map(|n| n.get())
            .unwrap_or(8)
            .min(16)
    }
}

pub fn replay_dir(id: &str) -> PathBuf {
    let d = Path::new(&verif_root()).join("replays").join(id);
    let _ = std::fs::create_dir_all(&d);
    d
}

#[derive(serde::Serialize, serde::Deserialize)]
pub struct ReplayFile<C> {
    pub property: String,
    pub sig: String,
    pub what: String,
    pub case: C,
}

fn write_replay<C: Serialize>(id: &str, prefix: &str, sig: &str, what: &str, case: &C) -> PathBuf {
    let h = case_hash(case);
    let p = replay_dir(id).join(format!("{prefix}-{h:016x}.json"));
    let v = json!({"property": id, "sig": sig, "what": what, "case": case});
    let _ = std::fs::write(&p, serde_json::to_string_pretty(&v).unwrap());
    p
}

// ------------------------------------------------------------------------------------------------
// Statistics

#[derive(Default)]
struct Stats {
    evaluations: u64,
    cases: u64,
    nontrivial_hashes: HashSet<u64>,
    inner_nontrivial: u64,
    labels: BTreeMap<String, u64>,
    samples: Vec<Value>,
    nontrivial_samples: Vec<Value>,
    corpus_cases: u64,
    generated_cases: u64,
    enumerated_cases: u64,
    known_hits: BTreeMap<String, u64>,
}

impl Stats {
    fn merge(&mut self, o: Stats) {
        self.evaluations += o.evaluations;
        self.cases += o.cases;
        self.nontrivial_hashes.extend(o.nontrivial_hashes);
        self.inner_nontrivial += o.inner_nontrivial;
        for (k, v) in o.labels {
            *self.labels.entry(k).or_default() += v;
        }
        for s in o.samples {
            if self.samples.len() < 6 {
                self.samples.push(s);
            }
        }
        for s in o.nontrivial_samples {
            if self.nontrivial_samples.len() < 6 {
                self.nontrivial_samples.push(s);
            }
        }
        self.corpus_cases += o.corpus_cases;
        self.generated_cases += o.generated_cases;
        self.enumerated_cases += o.enumerated_cases;
        for (k, v) in o.known_hits {
            *self.known_hits.entry(k).or_default() += v;
        }
    }
}

fn truncate_sample(v: Value) -> Value {
    // keep samples readable: cap their serialised size
    let s = v.to_string();
    if s.len() <= 3000 {
        v
    } else {
        let mut cut = 3000;
        while !s.is_char_boundary(cut) {
            cut -= 1;
        }
        json!({"truncated_json": &s[..cut], "full_len": s.len()})
    }
}

struct Shared<C> {
    stop: AtomicBool,
    failure: Mutex<Option<Failure<C>>>,
    inflight: Vec<Mutex<Option<(Instant, C)>>>,
    hang: Mutex<Option<C>>,
}

struct Failure<C> {
    sig: String,
    what: String,
    case: C,
    shrunk: bool,
}

enum Source {
    Corpus,
    Generated,
    Enumerated,
}

struct WorkerCtx<'a, K: Check> {
    check: &'a K,
    shared: &'a Shared<K::Case>,
    known: &'a [KnownFinding],
    worker: usize,
    trace: bool,
    stats: Stats,
    counting: bool,
}

impl<'a, K: Check> WorkerCtx<'a, K> {
    /// Returns Some((sig, what)) if the case is an (unknown) violation.
    fn exec(&mut self, case: &K::Case, src: Source) -> Option<(String, String)> {
        if self.trace {
            let p = replay_dir(K::ID).join(format!("inflight-{}.json", self.worker));
            let v = json!({"property": K::ID, "sig": "inflight", "what": "in flight when the process died", "case": case});
            let _ = std::fs::write(&p, v.to_string());
        }
        *self.shared.inflight[self.worker].lock().unwrap() = Some((Instant::now(), case.clone()));
        let out = match guard(|| self.check.run(case)) {
            Ok(o) => o,
            Err(p) => Outcome::violation(
                format!("harness-or-library-{}", panic_sig(&p)),
                format!("uncaught panic while running the case: {p}"),
            ),
        };
        if let Some((t0, _)) = self.shared.inflight[self.worker].lock().unwrap().take() {
            // diagnostic only: PV_SLOW_MS=<n> reports every case slower than n ms
            let slow = env_u64("PV_SLOW_MS", 0);
            if slow > 0 && t0.elapsed().as_millis() as u64 >= slow {
                let c = serde_json::to_string(case).unwrap_or_default();
                eprintln!("pv: slow case {} ms: {}", t0.elapsed().as_millis(), &c[..c.len().min(300)]);
            }
        }
        let mut viol = None;
        let mut known_hit = false;
        if let Verdict::Violation { sig, what } = &out.verdict {
            if let Some(k) = self
                .known
                .iter()
                .find(|k| k.property == K::ID && k.key == *sig)
            {
                known_hit = true;
                if self.counting {
                    *self.stats.known_hits.entry(k.key.clone()).or_default() += 1;
                }
            } else {
                viol = Some((sig.clone(), what.clone()));
            }
        }
        if self.counting {
            let st = &mut self.stats;
            st.cases += 1;
            st.evaluations += out.evals;
            match src {
                Source::Corpus => st.corpus_cases += 1,
                Source::Generated => st.generated_cases += 1,
                Source::Enumerated => st.enumerated_cases += 1,
            }
            if !out.inner_hashes.is_empty() {
                st.nontrivial_hashes.extend(out.inner_hashes.iter().copied());
            }
            st.inner_nontrivial += out.inner_nontrivial;
            if out.nontrivial && out.inner_hashes.is_empty() && out.inner_nontrivial == 0 {
                st.nontrivial_hashes.insert(case_hash(case));
            }
            for l in &out.labels {
                *st.labels.entry(l.clone()).or_default() += 1;
            }
            if known_hit {
                *st.labels.entry("known-finding".into()).or_default() += 1;
            }
            if st.samples.len() < 2 {
                st.samples
                    .push(truncate_sample(serde_json::to_value(case).unwrap_or(Value::Null)));
            }
            if out.nontrivial && st.nontrivial_samples.len() < 2 && (st.cases % 7 == 3) {
                st.nontrivial_samples
                    .push(truncate_sample(serde_json::to_value(case).unwrap_or(Value::Null)));
            }
        }
        viol
    }
}

pub struct RunArgs {
    pub tier: Tier,
    pub seed: u64,
}

/// Exit codes: 0 pass, 1 violation (VIOLATION line printed), 2 inconclusive, 3 hang (HANG line).
pub fn drive<K: Check>(check: K, args: RunArgs) -> i32 {
    let t0 = Instant::now();
    let id = K::ID;
    let tier = args.tier;
    let njobs = jobs();
    let known = load_known_findings();
    let trace = std::env::var("PV_TRACE").map(|v| v == "1").unwrap_or(false);
    let scale_pct = env_u64("PV_SCALE_PCT", 100);

    let shared: Arc<Shared<K::Case>> = Arc::new(Shared {
        stop: AtomicBool::new(false),
        failure: Mutex::new(None),
        inflight: (0..njobs).map(|_| Mutex::new(None)).collect(),
        hang: Mutex::new(None),
    });
    let check = Arc::new(check);

    // corpus
    let mut corpus: Vec<K::Case> = check.builtin_corpus();
    let cdir = Path::new(&verif_root()).join("corpus").join(id);
    if let Ok(rd) = std::fs::read_dir(&cdir) {
        let mut files: Vec<_> = rd.filter_map(|e| e.ok()).map(|e| e.path()).collect();
        files.sort();
        for f in files {
            if f.extension().map(|e| e == "json").unwrap_or(false) {
                match std::fs::read_to_string(&f)
                    .ok()
                    .and_then(|s| serde_json::from_str::<Value>(&s).ok())
                {
                    Some(v) => {
                        let cv = v.get("case").cloned().unwrap_or(v);
                        match serde_json::from_value::<K::Case>(cv) {
                            Ok(c) => corpus.push(c),
                            Err(e) => eprintln!("pv: corpus file {} does not parse as a {id} case: {e}", f.display()),
                        }
                    }
                    None => eprintln!("pv: unreadable corpus file {}", f.display()),
                }
            }
        }
    }
    let corpus = Arc::new(corpus);

    let total_cases = (check.num_cases(tier) * scale_pct / 100).max(njobs as u64);
    let per_worker = total_cases.div_ceil(njobs as u64);
    let case_timeout = Duration::from_secs(check.case_timeout_s(tier));

    // watchdog
    let done = Arc::new(AtomicBool::new(false));
    let wd = {
        let shared = shared.clone();
        let done = done.clone();
        std::thread::spawn(move || {
            while !done.load(Ordering::Relaxed) {
                std::thread::sleep(Duration::from_millis(500));
                for slot in shared.inflight.iter() {
                    let g = slot.lock().unwrap();
                    if let Some((t, c)) = g.as_ref() {
                        if t.elapsed() > case_timeout {
                            let mut h = shared.hang.lock().unwrap();
                            if h.is_none() {
                                *h = Some(c.clone());
                            }
                            shared.stop.store(true, Ordering::Relaxed);
                            return;
                        }
                    }
                }
            }
        })
    };

    let mut handles = vec![];
    for w in 0..njobs {
        let shared = shared.clone();
        let check = check.clone();
        let known = known.clone();
        let corpus = corpus.clone();
        let seed = args.seed;
        handles.push(
            std::thread::Builder::new()
                .name(format!("pv-{w}"))
                .stack_size(64 << 20)
                .spawn(move || {
                    let mut ctx = WorkerCtx::<K> {
                        check: &*check,
                        shared: &*shared,
                        known: &known,
                        worker: w,
                        trace,
                        stats: Stats::default(),
                        counting: true,
                    };
                    // 1. corpus (sharded round-robin)
                    for (i, c) in corpus.iter().enumerate() {
                        if i % njobs != w || shared.stop.load(Ordering::Relaxed) {
                            continue;
                        }
                        if let Some((sig, what)) = ctx.exec(c, Source::Corpus) {
                            let mut f = shared.failure.lock().unwrap();
                            if f.is_none() {
                                *f = Some(Failure { sig, what, case: c.clone(), shrunk: false });
                            }
                            shared.stop.store(true, Ordering::Relaxed);
                        }
                    }
                    // 2. enumerated
                    if !shared.stop.load(Ordering::Relaxed) {
                        let mut fail: Option<Failure<K::Case>> = None;
                        {
                            let mut f = |c: K::Case| -> bool {
                                if shared.stop.load(Ordering::Relaxed) {
                                    return false;
                                }
                                if let Some((sig, what)) = ctx.exec(&c, Source::Enumerated) {
                                    fail = Some(Failure { sig, what, case: c, shrunk: false });
                                    return false;
                                }
                                true
                            };
                            check.enumerate(tier, w, njobs, &mut f);
                        }
                        if let Some(fl) = fail {
                            let mut f = shared.failure.lock().unwrap();
                            if f.is_none() {
                                *f = Some(fl);
                            }
                            shared.stop.store(true, Ordering::Relaxed);
                        }
                    }
                    // 3. generated
                    if !shared.stop.load(Ordering::Relaxed) && per_worker > 0 {
                        let cfg = Config {
                            cases: per_worker as u32,
                            failure_persistence: None,
                            max_shrink_iters: check.max_shrink_iters(),
                            // shrinking is bounded in wall time as well (a failure is reported with
                            // the smallest case reached, never turned into "inconclusive" by a slow
                            // shrink on a loaded machine)
                            max_shrink_time: env_u64("PV_SHRINK_MS", 120_000) as u32,
                            max_global_rejects: 1 << 20,
                            max_local_rejects: 1 << 20,
                            ..Config::default()
                        };
                        let rng = TestRng::from_seed(RngAlgorithm::ChaCha, &seed_bytes(seed, K::ID, w as u64, 0));
                        let mut runner = TestRunner::new_with_rng(cfg, rng);
                        let strat = check.strategy(tier);
                        let ctxc = RefCell::new(&mut ctx);
                        let failing_sig: RefCell<Option<(String, String)>> = RefCell::new(None);
                        let res = runner.run(&strat, |case| {
                            let mut ctx = ctxc.borrow_mut();
                            if ctx.counting && ctx.shared.stop.load(Ordering::Relaxed) {
                                // another worker failed or a hang was detected: skip remaining
                                return Ok(());
                            }
                            match ctx.exec(&case, Source::Generated) {
                                None => Ok(()),
                                Some((sig, what)) => {
                                    // first failure: stop counting; proptest re-runs while shrinking
                                    if ctx.counting {
                                        ctx.counting = false;
                                        ctx.shared.stop.store(true, Ordering::Relaxed);
                                        *failing_sig.borrow_mut() = Some((sig.clone(), what.clone()));
                                    }
                                    // only shrink towards the *same* signature
                                    let same = failing_sig.borrow().as_ref().map(|(s, _)| *s == sig).unwrap_or(true);
                                    if same {
                                        *failing_sig.borrow_mut() = Some((sig.clone(), what.clone()));
                                        Err(TestCaseError::fail(sig))
                                    } else {
                                        Ok(())
                                    }
                                }
                            }
                        });
                        drop(ctxc);
                        match res {
                            Ok(()) => {}
                            Err(TestError::Fail(_, case)) => {
                                let (sig, what) = failing_sig.borrow().clone().unwrap_or(("unknown".into(), "unknown".into()));
                                let mut f = shared.failure.lock().unwrap();
                                if f.is_none() {
                                    *f = Some(Failure { sig, what, case, shrunk: true });
                                }
                            }
                            Err(TestError::Abort(r)) => {
                                eprintln!("pv: proptest aborted on worker {w}: {r}");
                            }
                        }
                    }
                    ctx.stats
                })
                .unwrap(),
        );
    }

    let mut stats = Stats::default();
    let mut worker_panicked = false;
    for h in handles {
        match h.join() {
            Ok(s) => stats.merge(s),
            Err(_) => worker_panicked = true,
        }
    }
    done.store(true, Ordering::Relaxed);
    let _ = wd.join();

    let failure = shared.failure.lock().unwrap().take();
    let hang = shared.hang.lock().unwrap().take();

    // evidence
    let mut samples = stats.samples.clone();
    samples.extend(stats.nontrivial_samples.clone());
    if samples.is_empty() {
        samples.push(json!("no case was executed"));
    }
    let distinct_nontrivial = stats.nontrivial_hashes.len() as u64 + stats.inner_nontrivial;
    let mut coverage = json!({
        "evaluations": stats.evaluations,
        "distinct_nontrivial": distinct_nontrivial,
        "rule": check.rule(),
        "samples": samples,
        "cases": stats.cases,
        "corpus_cases": stats.corpus_cases,
        "generated_cases": stats.generated_cases,
        "enumerated_cases": stats.enumerated_cases,
        "classes": stats.labels,
        "known_findings_hit": stats.known_hits,
        "workers": njobs,
    });
    if let Some(sp) = check.enumerated_space(tier) {
        coverage["exhaustive"] = json!(failure.is_none() && hang.is_none());
        coverage["exhaustive_space"] = json!(sp);
    }
    let extra = check.extra_evidence();
    if !extra.is_null() {
        coverage["extra"] = extra;
    }
    let ev = json!({
        "property_id": id,
        "tier": tier.name(),
        "seed": args.seed,
        "level": "exploration",
        "coverage": coverage,
        "assumptions": check.assumptions(),
        "wall_s": t0.elapsed().as_secs_f64(),
        "violations": if failure.is_some() { 1 } else { 0 },
    });
    let evdir = Path::new(&verif_root()).join("evidence");
    let _ = std::fs::create_dir_all(&evdir);
    if std::env::var("PV_NO_EVIDENCE").is_err() {
        let _ = std::fs::write(
            evdir.join(format!("{id}.json")),
            serde_json::to_string_pretty(&ev).unwrap(),
        );
    }

    for (k, n) in &stats.known_hits {
        let what = known
            .iter()
            .find(|f| f.key == *k && f.property == id)
            .map(|f| f.what.clone())
            .unwrap_or_default();
        println!("KNOWN-FINDING: property={id} key={k} {what} (hit {n} times)");
    }
    println!(
        "pv: {id} {} seed={} cases={} evaluations={} distinct_nontrivial={} wall={:.1}s",
        tier.name(),
        args.seed,
        stats.cases,
        stats.evaluations,
        distinct_nontrivial,
        t0.elapsed().as_secs_f64()
    );

    if let Some(f) = failure {
        let p = write_replay(id, if f.shrunk { "shrunk" } else { "case" }, &f.sig, &f.what, &f.case);
        println!("pv: violation sig={} what={}", f.sig, f.what);
        println!("VIOLATION property={id} replay={}", p.display());
        return 1;
    }
    if let Some(c) = hang {
        let p = write_replay(id, "hang", "hang", "case exceeded the per-case watchdog", &c);
        println!("HANG property={id} replay={}", p.display());
        // worker threads may still be stuck; leave via process exit
        return 3;
    }
    if worker_panicked {
        eprintln!("pv: a worker thread panicked outside a case: inconclusive");
        return 2;
    }
    0
}

/// Replay one file: exit 0 pass, 1 violation.
pub fn replay<K: Check>(check: K, path: &Path) -> i32 {
    let id = K::ID;
    let s = match std::fs::read_to_string(path) {
        Ok(s) => s,
        Err(e) => {
            eprintln!("pv: cannot read {}: {e}", path.display());
            return 2;
        }
    };
    let v: Value = match serde_json::from_str(&s) {
        Ok(v) => v,
        Err(e) => {
            eprintln!("pv: bad json: {e}");
            return 2;
        }
    };
    let cv = v.get("case").cloned().unwrap_or(v);
    let case: K::Case = match serde_json::from_value(cv) {
        Ok(c) => c,
        Err(e) => {
            eprintln!("pv: not a {id} case: {e}");
            return 2;
        }
    };
    let known = load_known_findings();
    let out = match guard(|| check.run(&case)) {
        Ok(o) => o,
        Err(p) => Outcome::violation(
            format!("harness-or-library-{}", panic_sig(&p)),
            format!("uncaught panic while running the case: {p}"),
        ),
    };
    match out.verdict {
        Verdict::Pass => {
            println!("pv: replay {} passes (labels: {:?})", path.display(), out.labels);
            0
        }
        Verdict::Violation { sig, what } => {
            if let Some(k) = known.iter().find(|k| k.property == id && k.key == sig) {
                println!("KNOWN-FINDING: property={id} key={} {}", k.key, k.what);
                0
            } else {
                println!("pv: violation sig={sig} what={what}");
                println!("VIOLATION property={id} replay={}", path.display());
                1
            }
        }
    }
}

// ------------------------------------------------------------------------------------------------
// Strategy helpers

/// Monotone index mapping: x in [0, 2^16) -> [0, len)
pub fn idx16(x: u16, len: usize) -> usize {
    if len == 0 {
        0
    } else {
        ((x as u64 * len as u64) >> 16) as usize
    }
}

pub fn pick<T: Clone + Debug + 'static>(items: Vec<T>) -> BoxedStrategy<T> {
    let n = items.len();
    (0..n).prop_map(move |i| items[i].clone()).boxed()
}

pub static GLOBAL_COUNTER: AtomicU64 = AtomicU64::new(0);
