#!/bin/bash
# tools/sweep_final.sh <nslots> [<seeded-id> ...]
# Re-runs, with the engine as committed now, the quick tier of the check of the property each seeded
# change was written against; writes seeded/<id>/detection_final.txt (engine commit recorded).
set -u
n="$1"; shift
cd /verif/seeded || exit 2
if [ $# -gt 0 ]; then ids=("$@"); else ids=($(ls -d C??-[mr]? | sort)); fi
commit=$(git -C /verif rev-parse --short HEAD)
worker() {
    w=$1
    i=0
    for id in "${ids[@]}"; do
        if [ $((i % n)) -eq "$w" ]; then
            own=$(python3 -c "import json;print(json.load(open('/verif/seeded/$id/meta.json'))['breaks_property'])")
            /verif/tools/slot.sh "s$w" "/verif/seeded/$id/patch.diff" $own 2>&1 | sed "s/^SLOT s$w/FINAL $id engine=$commit/" > "/verif/seeded/$id/detection_final.txt.new"
            mv "/verif/seeded/$id/detection_final.txt.new" "/verif/seeded/$id/detection_final.txt"
            echo "$(date +%H:%M:%S) $(cut -c1-160 /verif/seeded/$id/detection_final.txt | head -1)"
        fi
        i=$((i+1))
    done
}
for w in $(seq 0 $((n-1))); do worker $w & done
wait
