//! Library part of the property verifier (shared by the `pv` binary and the fuzz targets).
//! With the feature `fuzz-min` only the modules the fuzz targets need are compiled.
#![allow(clippy::type_complexity)]
#![allow(dead_code)]

pub mod harness;
pub mod util;
pub mod p3;
pub mod gen;
#[cfg(not(feature = "fuzz-min"))]
pub mod c01;
#[cfg(not(feature = "fuzz-min"))]
pub mod c02;
#[cfg(not(feature = "fuzz-min"))]
pub mod c03;
#[cfg(not(feature = "fuzz-min"))]
pub mod c04;
#[cfg(not(feature = "fuzz-min"))]
pub mod c05;
#[cfg(not(feature = "fuzz-min"))]
pub mod c06;
#[cfg(not(feature = "fuzz-min"))]
pub mod c07;
#[cfg(not(feature = "fuzz-min"))]
pub mod c08;
#[cfg(not(feature = "fuzz-min"))]
pub mod c09;
#[cfg(not(feature = "fuzz-min"))]
pub mod c10;
#[cfg(not(feature = "fuzz-min"))]
pub mod c11;
#[cfg(not(feature = "fuzz-min"))]
pub mod c12;
#[cfg(not(feature = "fuzz-min"))]
pub mod c13;
#[cfg(not(feature = "fuzz-min"))]
pub mod c14;
#[cfg(not(feature = "fuzz-min"))]
pub mod c15;
#[cfg(not(feature = "fuzz-min"))]
pub mod c16;
#[cfg(not(feature = "fuzz-min"))]
pub mod c17;
#[cfg(not(feature = "fuzz-min"))]
pub mod c18;
#[cfg(not(feature = "fuzz-min"))]
pub mod c19;
#[cfg(not(feature = "fuzz-min"))]
pub mod c20;
pub mod codec;
pub mod fuzzsel;
pub mod c07gram;
