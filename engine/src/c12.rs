//! C12 — the ping-pong topology follows the specified state machine and survives restarts.

use crate::c03::{make_param, AggParamSpec, Bits};
use crate::gen::*;
use crate::harness::*;
use crate::p3::*;
use crate::util::*;
use prio::codec::{CodecError, Decode, Encode, ParameterizedDecode};
use prio::topology::ping_pong::{PingPongMessage, PingPongState, PingPongTopology};
use prio::vdaf::poplar1::Poplar1;
use prio::vdaf::prio2::Prio2;
use prio::vdaf::prio3::Prio3;
use prio::vdaf::test_utils::TestVectorClient;
use prio::vdaf::xof::{Xof, XofTurboShake128};
use prio::vdaf::{Aggregatable, Aggregator, Client, Vdaf, VdafError, VerifyTransition};
use proptest::prelude::*;
use serde::{Deserialize, Serialize};
use std::io::Cursor;

pub struct C12;

// ------------------------------------------------------------------------------------------------
// The instrumented VDAF: order- and round-sensitive, any number of rounds.

#[derive(Clone, Debug)]
pub struct Probe {
    pub rounds: u8,
}

fn mix(a: u64, b: u64) -> u64 {
    hash64(&(a, b, 0x51ed_270b_u64))
}

macro_rules! fixed_codec {
    ($t:ident { $($f:ident : $ty:ty),* }) => {
        impl Encode for $t {
            fn encode(&self, bytes: &mut Vec<u8>) -> Result<(), CodecError> {
                $( self.$f.encode(bytes)?; )*
                Ok(())
            }
            fn encoded_len(&self) -> Option<usize> {
                Some(0 $( + std::mem::size_of::<$ty>() )*)
            }
        }
        impl Decode for $t {
            fn decode(bytes: &mut Cursor<&[u8]>) -> Result<Self, CodecError> {
                Ok($t { $( $f: <$ty>::decode(bytes)? ),* })
            }
        }
    };
}

#[derive(Clone, Debug, PartialEq, Eq)]
pub struct PIn {
    v: u64,
}
fixed_codec!(PIn { v: u64 });
#[derive(Clone, Debug, PartialEq, Eq)]
pub struct PState {
    agg: u8,
    round: u8,
    digest: u64,
}
fixed_codec!(PState { agg: u8, round: u8, digest: u64 });
#[derive(Clone, Debug, PartialEq, Eq)]
pub struct PShare {
    agg: u8,
    round: u8,
    digest: u64,
}
fixed_codec!(PShare { agg: u8, round: u8, digest: u64 });
#[derive(Clone, Debug, PartialEq, Eq)]
pub struct PMsg {
    round: u8,
    digest: u64,
}
fixed_codec!(PMsg { round: u8, digest: u64 });
#[derive(Clone, Debug, PartialEq, Eq)]
pub struct POut {
    digest: u64,
}
fixed_codec!(POut { digest: u64 });

impl From<POut> for PAgg {
    fn from(o: POut) -> Self {
        PAgg { sum: o.digest }
    }
}
#[derive(Clone, Debug, PartialEq, Eq)]
pub struct PAgg {
    sum: u64,
}
fixed_codec!(PAgg { sum: u64 });
impl Aggregatable for PAgg {
    type OutputShare = POut;
    fn merge(&mut self, o: &Self) -> Result<(), VdafError> {
        self.sum = self.sum.wrapping_add(o.sum);
        Ok(())
    }
    fn accumulate(&mut self, o: &POut) -> Result<(), VdafError> {
        self.sum = self.sum.wrapping_add(o.digest);
        Ok(())
    }
}

impl Vdaf for Probe {
    type Measurement = u64;
    type AggregateResult = u64;
    type AggregationParam = u8;
    type PublicShare = ();
    type InputShare = PIn;
    type OutputShare = POut;
    type AggregateShare = PAgg;
    fn algorithm_id(&self) -> u32 {
        0xFFFF_1234
    }
    fn num_aggregators(&self) -> usize {
        2
    }
}

impl Aggregator<16, 16> for Probe {
    type VerifyState = PState;
    type VerifierShare = PShare;
    type VerifierMessage = PMsg;

    fn verify_init(&self, key: &[u8; 16], ctx: &[u8], agg_id: usize, ap: &u8, nonce: &[u8; 16], _ps: &(), is: &PIn) -> Result<(PState, PShare), VdafError> {
        if agg_id > 1 {
            return Err(VdafError::Uncategorized("probe: bad aggregator id".into()));
        }
        let d = hash64(&(key, ctx, agg_id, *ap, nonce, is.v));
        Ok((PState { agg: agg_id as u8, round: 0, digest: d }, PShare { agg: agg_id as u8, round: 0, digest: d }))
    }

    fn verifier_shares_to_message<M: IntoIterator<Item = PShare>>(&self, _ctx: &[u8], _ap: &u8, inputs: M) -> Result<PMsg, VdafError> {
        let v: Vec<PShare> = inputs.into_iter().collect();
        if v.len() != 2 {
            return Err(VdafError::Uncategorized(format!("probe: {} shares", v.len())));
        }
        if v[0].agg != 0 || v[1].agg != 1 {
            return Err(VdafError::Uncategorized(format!("probe: shares handed over in the order [{}, {}], expected aggregator order [0, 1]", v[0].agg, v[1].agg)));
        }
        if v[0].round != v[1].round {
            return Err(VdafError::Uncategorized("probe: shares of different rounds combined".into()));
        }
        Ok(PMsg { round: v[0].round, digest: mix(mix(v[0].digest, v[1].digest), v[0].round as u64) })
    }

    fn verify_next(&self, _ctx: &[u8], state: PState, msg: PMsg) -> Result<VerifyTransition<Self, 16, 16>, VdafError> {
        if msg.round != state.round {
            return Err(VdafError::Uncategorized(format!("probe: message of round {} in round {}", msg.round, state.round)));
        }
        let d = mix(state.digest, msg.digest);
        if state.round + 1 == self.rounds {
            Ok(VerifyTransition::Finish(POut { digest: d }))
        } else {
            Ok(VerifyTransition::Continue(PState { agg: state.agg, round: state.round + 1, digest: d }, PShare { agg: state.agg, round: state.round + 1, digest: d }))
        }
    }

    fn aggregate_init(&self, _: &u8) -> PAgg {
        PAgg { sum: 0 }
    }
    fn is_agg_param_valid(_: &u8, _: &[u8]) -> bool {
        true
    }
}

// ------------------------------------------------------------------------------------------------
// Histories

#[derive(Clone, Debug, Serialize, Deserialize, PartialEq, Eq)]
pub enum Action {
    /// deliver the message that is in flight
    Deliver,
    /// deliver an earlier message of the transcript instead (then go on correctly)
    Replay(u8),
    /// deliver the same payload under another message kind
    Retype(u8),
    /// deliver a corrupted copy: 0 truncate a payload, 1 extend a payload, 2 flip a payload bit
    Corrupt(u8, u16),
    /// the receiver persists its continuation, reloads it and evaluates the reloaded one
    Reload,
    /// the receiver evaluates its continuation once more
    EvalAgain,
}

#[derive(Clone, Debug, Serialize, Deserialize)]
pub enum VdafSel {
    Probe { rounds: u8 },
    Prio3 { cfg: VdafCfg, meas: Meas },
    Poplar1 { bits: usize, input: Bits, param: AggParamSpec },
    Prio2 { len: usize },
    Dummy { rounds: u8 },
}

#[derive(Clone, Debug, Serialize, Deserialize)]
pub struct Case {
    pub vdaf: VdafSel,
    pub seed: u64,
    pub ctx: Hex,
    pub actions: Vec<Action>,
}

fn action_strategy() -> BoxedStrategy<Action> {
    prop_oneof![
        4 => Just(Action::Deliver),
        2 => any::<u8>().prop_map(Action::Replay),
        2 => any::<u8>().prop_map(Action::Retype),
        2 => (0u8..3, any::<u16>()).prop_map(|(k, p)| Action::Corrupt(k, p)),
        3 => Just(Action::Reload),
        2 => Just(Action::EvalAgain),
    ]
    .boxed()
}

pub fn case_strategy() -> BoxedStrategy<Case> {
    let mut lim = Limits::small();
    lim.big_aggs = false;
    let vd = prop_oneof![
        5 => (1u8..=6).prop_map(|rounds| VdafSel::Probe { rounds }),
        3 => (cfg_strategy(lim), any::<u8>(), any::<u64>()).prop_map(|(mut cfg, sel, ms)| {
            cfg.n_agg = 2;
            let meas = meas_from(&cfg.inst, sel, ms);
            VdafSel::Prio3 { cfg, meas }
        }),
        3 => (1usize..=12, any::<u64>(), any::<u16>(), any::<u64>(), any::<bool>()).prop_map(|(bits, iseed, level, pseed, leaf)| {
            let input = Bits::from_seed(iseed, bits);
            let level = if leaf { bits - 1 } else { idx16(level, bits) };
            let mut prefixes = vec![input.prefix(level + 1), Bits::from_seed(pseed | 2, level + 1)];
            prefixes.sort_by(|a, b| a.bools().cmp(&b.bools()));
            prefixes.dedup();
            VdafSel::Poplar1 { bits, input, param: AggParamSpec { level, prefixes, heads: vec![] } }
        }),
        1 => (1usize..=20).prop_map(|len| VdafSel::Prio2 { len }),
        1 => (1u8..=4).prop_map(|rounds| VdafSel::Dummy { rounds }),
    ];
    (vd, any::<u64>(), ctx_strategy(), prop::collection::vec(action_strategy(), 0..=14)).prop_map(|(vdaf, seed, ctx, actions)| Case { vdaf, seed: seed | 2, ctx, actions }).boxed()
}

// ------------------------------------------------------------------------------------------------
// Generic driver

struct Reference {
    /// expected message sequence (kind tag, verifier message bytes, verifier share bytes)
    messages: Vec<PingPongMessage>,
    outputs: [Vec<u8>; 2],
}

/// Direct broadcast execution → the expected ping-pong transcript.
fn reference<V, const K: usize>(vdaf: &V, key: &[u8; K], ctx: &[u8], ap: &V::AggregationParam, nonce: &[u8; 16], ps: &V::PublicShare, shares: &[V::InputShare]) -> Result<Reference, String>
where
    V: Aggregator<K, 16>,
{
    let mut states = vec![];
    let mut vshares = vec![];
    for j in 0..2 {
        let (st, sh) = vdaf.verify_init(key, ctx, j, ap, nonce, ps, &shares[j]).map_err(|e| format!("verify_init: {e}"))?;
        states.push(st);
        vshares.push(sh);
    }
    let mut messages = vec![PingPongMessage::Initialize { verifier_share: vshares[0].get_encoded().map_err(|e| e.to_string())? }];
    let mut outputs: [Option<Vec<u8>>; 2] = [None, None];
    let mut sender = 1usize; // helper sends the second message
    for _round in 0..16 {
        let msg = vdaf.verifier_shares_to_message(ctx, ap, vshares.clone()).map_err(|e| format!("verifier_shares_to_message: {e}"))?;
        let mb = msg.get_encoded().map_err(|e| e.to_string())?;
        let mut next_states = vec![];
        let mut next_shares = vec![];
        for (j, st) in states.iter().enumerate() {
            match vdaf.verify_next(ctx, st.clone(), msg.clone()).map_err(|e| format!("verify_next: {e}"))? {
                VerifyTransition::Continue(s, sh) => {
                    next_states.push(s);
                    next_shares.push(sh);
                }
                VerifyTransition::Finish(o) => outputs[j] = Some(o.get_encoded().map_err(|e| e.to_string())?),
            }
        }
        if next_states.is_empty() {
            messages.push(PingPongMessage::Finish { verifier_message: mb });
            break;
        }
        if next_states.len() != 2 {
            return Err("aggregators finish in different rounds".into());
        }
        messages.push(PingPongMessage::Continue { verifier_message: mb, verifier_share: next_shares[sender].get_encoded().map_err(|e| e.to_string())? });
        sender = 1 - sender;
        states = next_states;
        vshares = next_shares;
    }
    match outputs {
        [Some(a), Some(b)] => Ok(Reference { messages, outputs: [a, b] }),
        _ => Err("no output after 16 rounds".into()),
    }
}

fn kind(m: &PingPongMessage) -> u8 {
    match m {
        PingPongMessage::Initialize { .. } => 0,
        PingPongMessage::Continue { .. } => 1,
        PingPongMessage::Finish { .. } => 2,
    }
}

fn retype(m: &PingPongMessage, to: u8) -> Option<PingPongMessage> {
    let (vm, vs): (Vec<u8>, Vec<u8>) = match m {
        PingPongMessage::Initialize { verifier_share } => (verifier_share.clone(), verifier_share.clone()),
        PingPongMessage::Continue { verifier_message, verifier_share } => (verifier_message.clone(), verifier_share.clone()),
        PingPongMessage::Finish { verifier_message } => (verifier_message.clone(), verifier_message.clone()),
    };
    let to = to % 3;
    if to == kind(m) {
        return None;
    }
    Some(match to {
        0 => PingPongMessage::Initialize { verifier_share: vs },
        1 => PingPongMessage::Continue { verifier_message: vm, verifier_share: vs },
        _ => PingPongMessage::Finish { verifier_message: vm },
    })
}

fn corrupt(m: &PingPongMessage, how: u8, pos: u16, allow_flip: bool) -> Option<PingPongMessage> {
    let edit = |b: &Vec<u8>| -> Option<Vec<u8>> {
        let mut v = b.clone();
        match how % 3 {
            0 => {
                if v.is_empty() {
                    return None;
                }
                let k = 1 + idx16(pos, v.len().min(4));
                let n = v.len() - k;
                v.truncate(n);
            }
            1 => v.extend_from_slice(&[0x5A; 1]),
            _ => {
                if v.is_empty() || !allow_flip {
                    return None;
                }
                let i = idx16(pos, v.len() * 8);
                v[i / 8] ^= 1 << (i % 8);
            }
        }
        Some(v)
    };
    Some(match m {
        PingPongMessage::Initialize { verifier_share } => PingPongMessage::Initialize { verifier_share: edit(verifier_share)? },
        PingPongMessage::Continue { verifier_message, verifier_share } => {
            if pos % 2 == 0 {
                PingPongMessage::Continue { verifier_message: edit(verifier_message)?, verifier_share: verifier_share.clone() }
            } else {
                PingPongMessage::Continue { verifier_message: verifier_message.clone(), verifier_share: edit(verifier_share)? }
            }
        }
        PingPongMessage::Finish { verifier_message } => PingPongMessage::Finish { verifier_message: edit(verifier_message)? },
    })
}

enum Party<S, O> {
    /// waiting for a message with this verifier state (None = helper before initialisation)
    Waiting(Option<S>),
    Done(O),
}

#[allow(clippy::too_many_arguments)]
fn drive_pp<V, const K: usize>(vdaf: &V, key: &[u8; K], ctx: &[u8], ap: &V::AggregationParam, nonce: &[u8; 16], ps: &V::PublicShare, shares: &[V::InputShare], actions: &[Action], allow_flip: bool, obs: &mut Obs)
where
    V: Aggregator<K, 16>,
    V::VerifyState: Encode + for<'a> ParameterizedDecode<(&'a V, usize)>,
    V::OutputShare: Encode,
{
    let reference = match guard(|| reference(vdaf, key, ctx, ap, nonce, ps, shares)) {
        Ok(Ok(r)) => r,
        Ok(Err(e)) => {
            obs.fail("broadcast-reference-failed", format!("direct broadcast execution of an honest report failed: {e}"));
            return;
        }
        Err(p) => {
            obs.fail(format!("broadcast-{}", panic_sig(&p)), format!("direct broadcast execution panicked: {p}"));
            return;
        }
    };
    let rounds = reference.messages.len() - 1;
    obs.label(format!("rounds:{rounds}"));

    // the leader starts
    let lead = match guard(|| vdaf.leader_initialized(key, ctx, ap, nonce, ps, &shares[0])) {
        Ok(Ok(c)) => c,
        Ok(Err(e)) => {
            obs.fail("leader-initialized-err", format!("leader_initialized failed on an honest report: {e}"));
            return;
        }
        Err(p) => {
            obs.fail(format!("leader-initialized-{}", panic_sig(&p)), format!("leader_initialized panicked: {p}"));
            return;
        }
    };
    let mut parties: [Party<V::VerifyState, V::OutputShare>; 2] = [Party::Waiting(Some(lead.verifier_state)), Party::Waiting(None)];
    let mut in_flight: Option<PingPongMessage> = Some(lead.message);
    let mut transcript: Vec<PingPongMessage> = vec![];
    let mut receiver = 1usize;
    let mut ai = 0usize;
    let mut faults = 0usize;
    let mut reloads = 0usize;

    // one delivery attempt; Ok(continuation) or Err(description)
    let receive = |rcv: usize, st: &Option<V::VerifyState>, m: &PingPongMessage| -> Result<Result<Cont<V, K>, String>, String> {
        guard(|| match (rcv, st) {
            (1, None) => vdaf.helper_initialized(key, ctx, ap, nonce, ps, &shares[1], m).map_err(|e| e.to_string()),
            (0, Some(s)) => vdaf.leader_continued(ctx, ap, s.clone(), m).map_err(|e| e.to_string()),
            (1, Some(s)) => vdaf.helper_continued(ctx, ap, s.clone(), m).map_err(|e| e.to_string()),
            _ => Err("harness: leader without state".into()),
        })
    };

    for _step in 0..64 {
        let Some(msg) = in_flight.take() else { break };
        let idx = transcript.len();
        // the message on the wire must be the specified one
        if idx >= reference.messages.len() || msg != reference.messages[idx] {
            obs.fail("message-sequence", format!("message {idx} of the exchange is {:?}{}, the specification gives {:?}", msg, if idx < reference.messages.len() && kind(&msg) == kind(&reference.messages[idx]) { " (payload differs)" } else { "" }, reference.messages.get(idx)));
            return;
        }
        // it survives its own wire encoding
        match msg.get_encoded().ok().and_then(|b| PingPongMessage::get_decoded(&b).ok()) {
            Some(m2) if m2 == msg => {}
            _ => {
                obs.fail("message-codec", "a ping-pong message does not survive its own encoding");
                return;
            }
        }
        let state = match &parties[receiver] {
            Party::Waiting(s) => s.clone(),
            Party::Done(_) => {
                obs.fail("message-after-finish", "a message was produced for a party that already finished");
                return;
            }
        };
        // faults and restart flags scheduled before the next correct delivery
        let mut reload = false;
        let mut again = false;
        while ai < actions.len() {
            let a = actions[ai].clone();
            ai += 1;
            let faulty: Option<(PingPongMessage, String)> = match a {
                Action::Deliver => break,
                Action::Reload => {
                    reload = true;
                    continue;
                }
                Action::EvalAgain => {
                    again = true;
                    continue;
                }
                Action::Replay(k) => {
                    if transcript.is_empty() {
                        None
                    } else {
                        let old = transcript[k as usize % transcript.len()].clone();
                        // a first-message duplicate to the uninitialised helper is a fresh start, not a fault
                        if old == msg {
                            None
                        } else {
                            Some((old, "replayed earlier message".into()))
                        }
                    }
                }
                Action::Retype(t) => retype(&msg, t).map(|m| (m, "re-typed message".into())),
                Action::Corrupt(h, p) => {
                    // on the wire: a frame cut short or with a trailing byte is undecodable and
                    // must never turn into a message
                    if let Ok(wire) = msg.get_encoded() {
                        let bad = if h % 2 == 0 && !wire.is_empty() { wire[..wire.len() - 1 - idx16(p, wire.len().min(6))].to_vec() } else { [&wire[..], &[0x5A]].concat() };
                        match guard(|| PingPongMessage::get_decoded(&bad)) {
                            Ok(Err(_)) => obs.label("undecodable-frame-refused"),
                            Ok(Ok(m)) => {
                                obs.fail("undecodable-frame-decoded", format!("the frame {} ({} of the encoding of {:?}) decoded to {:?}", hex(&bad), if bad.len() < wire.len() { "a strict prefix" } else { "an extension" }, msg, m));
                                return;
                            }
                            Err(pn) => {
                                obs.fail(format!("frame-decode-{}", panic_sig(&pn)), format!("decoding the frame {} panicked: {pn}", hex(&bad)));
                                return;
                            }
                        }
                    }
                    corrupt(&msg, h, p, allow_flip).map(|m| (m, "corrupted message".into()))
                }
            };
            if let Some((fm, what)) = faulty {
                faults += 1;
                match receive(receiver, &state, &fm) {
                    Err(p) => {
                        obs.fail(format!("faulty-delivery-{}", panic_sig(&p)), format!("delivering a {what} panicked: {p}"));
                        return;
                    }
                    Ok(Err(_)) => obs.label("fault-refused"),
                    Ok(Ok(cont)) => {
                        // refused only if evaluating it fails; any state or output share is a violation
                        let ev = guard(|| evaluate::<V, K>(&cont, ctx, vdaf));
                        match ev {
                            Ok(Err(_)) => obs.label("fault-refused-at-evaluate"),
                            Ok(Ok(_)) => {
                                obs.fail("faulty-delivery-accepted", format!("{} accepted a {what} ({:?} while {:?} was due) and produced a new state", if receiver == 0 { "leader" } else { "helper" }, fm, msg));
                                return;
                            }
                            Err(p) => {
                                obs.fail(format!("faulty-evaluate-{}", panic_sig(&p)), format!("evaluating after a {what} panicked: {p}"));
                                return;
                            }
                        }
                    }
                }
            }
        }
        // correct delivery (the message crosses the wire: encode, decode, equal)
        match msg.get_encoded().ok().map(|w| (PingPongMessage::get_decoded(&w), w)) {
            Some((Ok(m), _)) if m == msg => {}
            other => {
                obs.fail("message-wire-roundtrip", format!("message {idx} ({msg:?}) does not survive its own wire encoding: {:?}", other.map(|(r, w)| (r.map_err(|e| e.to_string()), hex(&w)))));
                return;
            }
        }
        let cont = match receive(receiver, &state, &msg) {
            Ok(Ok(c)) => c,
            Ok(Err(e)) => {
                obs.fail("correct-delivery-refused", format!("the specified message {idx} ({:?}) was refused by the {}: {e}", msg, if receiver == 0 { "leader" } else { "helper" }));
                return;
            }
            Err(p) => {
                obs.fail(format!("correct-delivery-{}", panic_sig(&p)), format!("delivering message {idx} panicked: {p}"));
                return;
            }
        };
        transcript.push(msg);
        let first = match guard(|| evaluate::<V, K>(&cont, ctx, vdaf)) {
            Ok(Ok(s)) => s,
            Ok(Err(e)) => {
                obs.fail("evaluate-err", format!("evaluating the continuation after message {idx} failed: {e}"));
                return;
            }
            Err(p) => {
                obs.fail(format!("evaluate-{}", panic_sig(&p)), format!("evaluate panicked: {p}"));
                return;
            }
        };
        let describe = |s: &Evald<V::VerifyState, V::OutputShare>| -> (u8, Vec<u8>, Option<PingPongMessage>) {
            match s {
                Evald::Continued(st, m) => (0, st.get_encoded().unwrap_or_default(), Some(m.clone())),
                Evald::FinishedWithOutbound(o, m) => (1, o.get_encoded().unwrap_or_default(), Some(m.clone())),
                Evald::Finished(o) => (2, o.get_encoded().unwrap_or_default(), None),
            }
        };
        if again {
            for _ in 0..2 {
                match guard(|| evaluate::<V, K>(&cont, ctx, vdaf)) {
                    Ok(Ok(s2)) if describe(&s2) == describe(&first) => {}
                    _ => {
                        obs.fail("evaluate-not-repeatable", format!("evaluating the same continuation again after message {idx} gives a different result"));
                        return;
                    }
                }
            }
            obs.label("evaluated-again");
        }
        if reload {
            reloads += 1;
            match guard(|| cont_encode::<V, K>(&cont)) {
                Err(p) => {
                    obs.fail(format!("continuation-encode-{}", panic_sig(&p)), format!("encoding a continuation panicked: {p}"));
                    return;
                }
                Ok(Err(_)) => {
                    // only a finished continuation may refuse to encode
                    if describe(&first).0 != 2 {
                        obs.fail("continuation-encode-refused", format!("a continuation that still has work to do (after message {idx}) refuses to encode"));
                        return;
                    }
                    obs.label("finished-continuation-not-encodable");
                }
                Ok(Ok((bytes, len))) => {
                    if len != Some(bytes.len()) {
                        obs.fail("continuation-encoded-len", format!("continuation advertises {len:?} bytes, produced {}", bytes.len()));
                        return;
                    }
                    let re = guard(|| cont_decode::<V, K>(vdaf, receiver, &bytes).and_then(|c| evaluate::<V, K>(&c, ctx, vdaf)));
                    match re {
                        Ok(Ok(s2)) if describe(&s2) == describe(&first) => obs.label("reloaded"),
                        Ok(Ok(_)) => {
                            obs.fail("reloaded-continuation-differs", format!("the continuation stored after message {idx}, reloaded and evaluated, yields a different state / outbound message"));
                            return;
                        }
                        Ok(Err(e)) => {
                            obs.fail("reload-failed", format!("a stored continuation cannot be reloaded and evaluated: {e}"));
                            return;
                        }
                        Err(p) => {
                            obs.fail(format!("reload-{}", panic_sig(&p)), format!("reloading a continuation panicked: {p}"));
                            return;
                        }
                    }
                }
            }
        }
        match first {
            Evald::Continued(st, m) => {
                parties[receiver] = Party::Waiting(Some(st));
                in_flight = Some(m);
            }
            Evald::FinishedWithOutbound(o, m) => {
                parties[receiver] = Party::Done(o);
                in_flight = Some(m);
            }
            Evald::Finished(o) => parties[receiver] = Party::Done(o),
        }
        receiver = 1 - receiver;
    }
    // both finished with the broadcast outputs, after exactly the specified messages
    if transcript.len() != reference.messages.len() {
        obs.fail("exchange-length", format!("the exchange had {} messages, the specification gives {}", transcript.len(), reference.messages.len()));
        return;
    }
    for j in 0..2 {
        match &parties[j] {
            Party::Done(o) => {
                if o.get_encoded().unwrap_or_default() != reference.outputs[j] {
                    obs.fail("output-share-differs", format!("{} finished with an output share that differs from the direct broadcast execution", if j == 0 { "leader" } else { "helper" }));
                    return;
                }
            }
            Party::Waiting(_) => {
                obs.fail("party-not-finished", format!("{} did not finish", if j == 0 { "leader" } else { "helper" }));
                return;
            }
        }
    }
    if faults > 0 {
        obs.label("history-with-fault");
    }
    if rounds >= 2 && faults >= 1 && reloads >= 1 {
        obs.nt();
    }
}

enum Evald<S, O> {
    Continued(S, PingPongMessage),
    FinishedWithOutbound(O, PingPongMessage),
    Finished(O),
}

fn evaluate<V, const K: usize>(c: &Cont<V, K>, ctx: &[u8], vdaf: &V) -> Result<Evald<V::VerifyState, V::OutputShare>, String>
where
    V: Aggregator<K, 16>,
{
    // PingPongContinuation is the concrete library type for every Aggregator (blanket impl)
    match c.evaluate(ctx, vdaf).map_err(|e| e.to_string())? {
        PingPongState::Continued(k) => Ok(Evald::Continued(k.verifier_state, k.message)),
        PingPongState::FinishedWithOutbound { output_share, message } => Ok(Evald::FinishedWithOutbound(output_share, message)),
        PingPongState::Finished { output_share } => Ok(Evald::Finished(output_share)),
    }
}

type Cont<V, const K: usize> = prio::topology::ping_pong::PingPongContinuation<K, 16, V>;

fn cont_encode<V, const K: usize>(c: &Cont<V, K>) -> Result<(Vec<u8>, Option<usize>), String>
where
    V: Aggregator<K, 16>,
    V::VerifyState: Encode,
{
    let len = c.encoded_len();
    c.get_encoded().map(|b| (b, len)).map_err(|e| e.to_string())
}

fn cont_decode<V, const K: usize>(vdaf: &V, agg_id: usize, bytes: &[u8]) -> Result<Cont<V, K>, String>
where
    V: Aggregator<K, 16>,
    V::VerifyState: for<'a> ParameterizedDecode<(&'a V, usize)>,
{
    prio::topology::ping_pong::PingPongContinuation::<K, 16, V>::get_decoded_with_param(&(vdaf, agg_id), bytes).map_err(|e| e.to_string())
}

struct P3Run<'a> {
    case: &'a Case,
    meas: &'a Meas,
    obs: &'a mut Obs,
}

impl<'a> VdafVisitor for P3Run<'a> {
    type Out = ();
    fn visit<T, P>(self, vdaf: Prio3<T, P, 32>, _typ: T)
    where
        T: TypeBridge + 'static,
        T::Field: FieldBig,
        P: Xof<32> + 'static,
    {
        let c = self.case;
        let VdafSel::Prio3 { cfg, .. } = &c.vdaf else { return };
        let key: [u8; 32] = arr_from(c.seed);
        let nonce: [u8; 16] = arr_from(c.seed ^ 0x55);
        let rand = bytes_from(c.seed ^ 0x77, cfg.rand_len());
        let (ps, shares) = match vdaf.shard_with_random(&c.ctx.0, &T::to_meas(self.meas), &nonce, &rand) {
            Ok(x) => x,
            Err(e) => {
                self.obs.fail("honest-shard", format!("honest sharding failed: {e}"));
                return;
            }
        };
        drive_pp(&vdaf, &key, &c.ctx.0, &(), &nonce, &ps, &shares, &c.actions, false, self.obs);
    }
}

impl Check for C12 {
    type Case = Case;
    const ID: &'static str = "C12";
    fn rule(&self) -> String {
        "histories over {deliver, replay an earlier message, re-type the payload (Initialize↔Continue↔Finish), corrupt into an undecodable message (truncate / extend a payload; decodable content changes are C02/C04's subject: the topology only promises refusal of undecodable messages), persist-and-reload the continuation, evaluate again} interpreted against the real blanket PingPongTopology impl for: an instrumented VDAF with 1..6 rounds whose combiner refuses anything but [leader, helper] shares of the current round and whose output share is a transcript digest; Prio3 (all types, two aggregators); Poplar1 (inner and leaf); Prio2; dummy::Vdaf. Reference model: a direct broadcast execution gives the exact message sequence (Initialize, R−1 Continues, Finish with their payloads) and the output shares; every faulty delivery must be refused without a new state or output share; reloaded / re-evaluated continuations must give the same state and outbound message. Enumerated: all histories up to depth 5 (7 thorough) over the six action kinds for the instrumented VDAF with R ≤ 3. Non-trivial = R ≥ 2 with ≥ 1 fault and ≥ 1 reload; distinct by case hash".into()
    }
    fn strategy(&self, _tier: Tier) -> BoxedStrategy<Case> {
        case_strategy()
    }
    fn num_cases(&self, tier: Tier) -> u64 {
        tier.pick(60_000, 1_500_000)
    }
    fn enumerate(&self, tier: Tier, shard: usize, nshards: usize, f: &mut dyn FnMut(Case) -> bool) {
        let depth = tier.pick(5usize, 7);
        let alphabet = [Action::Deliver, Action::Replay(0), Action::Retype(1), Action::Corrupt(1, 0), Action::Reload, Action::EvalAgain];
        let mut i = 0usize;
        for rounds in 1..=3u8 {
            let total = 6usize.pow(depth as u32);
            for code in 0..total {
                i += 1;
                if i % nshards != shard {
                    continue;
                }
                let mut c = code;
                let actions: Vec<Action> = (0..depth)
                    .map(|k| {
                        let a = alphabet[c % 6].clone();
                        c /= 6;
                        // vary the parameters with the position so that replays/retypes differ
                        match a {
                            Action::Replay(_) => Action::Replay(k as u8),
                            Action::Retype(_) => Action::Retype(k as u8),
                            Action::Corrupt(_, _) => Action::Corrupt(k as u8 % 2, k as u16),
                            x => x,
                        }
                    })
                    .collect();
                if !f(Case { vdaf: VdafSel::Probe { rounds }, seed: 7 + rounds as u64, ctx: Hex(b"enum".to_vec()), actions }) {
                    return;
                }
            }
        }
    }
    fn enumerated_space(&self, tier: Tier) -> Option<String> {
        Some(format!("instrumented VDAF with R = 1, 2, 3 × all 6^{} action sequences of length {}", tier.pick(5, 7), tier.pick(5, 7)))
    }
    fn run(&self, case: &Case) -> Outcome {
        let mut obs = Obs::new();
        match &case.vdaf {
            VdafSel::Probe { rounds } => {
                obs.label("vdaf:probe");
                let vdaf = Probe { rounds: *rounds };
                let key: [u8; 16] = arr_from(case.seed);
                let nonce: [u8; 16] = arr_from(case.seed ^ 0x55);
                let shares = vec![PIn { v: case.seed ^ 1 }, PIn { v: case.seed ^ 2 }];
                drive_pp(&vdaf, &key, &case.ctx.0, &3u8, &nonce, &(), &shares, &case.actions, false, &mut obs);
            }
            VdafSel::Prio3 { cfg, meas } => {
                obs.label("vdaf:prio3");
                if let Err(e) = with_vdaf(cfg, P3Run { case, meas, obs: &mut obs }) {
                    obs.fail("constructor-refused-admissible-parameters", format!("{e}"));
                }
            }
            VdafSel::Poplar1 { bits, input, param } => {
                obs.label("vdaf:poplar1");
                let vdaf = Poplar1::<XofTurboShake128, 32>::new(*bits);
                let key: [u8; 32] = arr_from(case.seed);
                let nonce: [u8; 16] = arr_from(case.seed ^ 0x55);
                let rand = bytes_from(case.seed ^ 0x77, 32 + 96);
                match (vdaf.shard_with_random(&case.ctx.0, &input.idpf(), &nonce, &rand), make_param(param)) {
                    (Ok((ps, shares)), Ok(ap)) => drive_pp(&vdaf, &key, &case.ctx.0, &ap, &nonce, &ps, &shares, &case.actions, false, &mut obs),
                    (Err(e), _) => obs.fail("honest-shard", format!("honest Poplar1 sharding failed: {e}")),
                    (_, Err(e)) => obs.fail("param", format!("harness: bad aggregation parameter: {e}")),
                }
            }
            VdafSel::Prio2 { len } => {
                obs.label("vdaf:prio2");
                let vdaf = match Prio2::new(*len) {
                    Ok(v) => v,
                    Err(e) => {
                        obs.fail("prio2-ctor", format!("{e}"));
                        return obs.finish();
                    }
                };
                let key: [u8; 32] = arr_from(case.seed);
                let nonce: [u8; 16] = arr_from(case.seed ^ 0x55);
                let meas: Vec<u32> = expand(case.seed, 5, *len).iter().map(|b| (b & 1) as u32).collect();
                match vdaf.shard(&case.ctx.0, &meas, &nonce) {
                    Ok(((), shares)) => drive_pp(&vdaf, &key, &case.ctx.0, &(), &nonce, &(), &shares, &case.actions, false, &mut obs),
                    Err(e) => obs.fail("honest-shard", format!("honest Prio2 sharding failed: {e}")),
                }
            }
            VdafSel::Dummy { rounds } => {
                obs.label("vdaf:dummy");
                let vdaf = prio::vdaf::dummy::Vdaf::new(*rounds as u32);
                let nonce: [u8; 16] = arr_from(case.seed ^ 0x55);
                let shares = vec![prio::vdaf::dummy::InputShare(1), prio::vdaf::dummy::InputShare(2)];
                // the dummy VDAF cannot tell rounds or orders apart: only the fault-free part of the history
                let actions: Vec<Action> = case.actions.iter().filter(|a| matches!(a, Action::Deliver | Action::Reload | Action::EvalAgain)).cloned().collect();
                drive_pp(&vdaf, &[], &case.ctx.0, &prio::vdaf::dummy::AggregationParam(1), &nonce, &(), &shares, &actions, false, &mut obs);
            }
        }
        obs.finish()
    }
}
