#!/usr/bin/env python3
"""Regenerates /verif/MANIFEST.json from the table below (kept valid at all times)."""
import json, os, subprocess

CHECKS = {
    "C01": dict(
        technique="property-based testing (proptest): generated Prio3 instances/batches vs BigUint reference aggregate, wire round-trips at every step",
        text="Generated exploration of the parameter lattice (bounds at 2^k-1/2^k/2^k+1/p-2/p-1, dividing and non-dividing chunk lengths, 2..254 aggregators, 1..255 proofs, three XOFs incl. a rejection-heavy one) with batches of in-range measurements; every message goes through its encoding; oracle is an independent big-integer aggregate plus a per-report check that output shares sum to the truncated documented encoding. Finds parameter-dependent defects, does not prove absence.",
        note="Trusted: the harness's reference encoder/aggregate (written from the type documentation), proptest, splitmix expansion of seeds into randomness.",
        design="3/C01"),
    "C03": dict(
        technique="property-based testing (proptest): generated Poplar1 batches and admissible aggregation-parameter chains (incl. deep levels > 21845) vs plain prefix counts; heavy hitters vs brute force",
        text="Generated exploration over bit lengths 1..65536 (deep levels in every run), candidate sets mixing on-path prefixes, siblings and random strings, chains of parameters on the same reports, three XOF instantiations incl. a rejection-heavy one; two-round verification over the wire; oracle is a plain count of inputs starting with each prefix and brute-force heavy hitters.",
        note="Trusted: the harness's bit-string model and prefix counting; deterministic sharding through TestVectorClient::shard_with_random.",
        design="3/C03"),
    "C07": dict(
        technique="grammar-based generation + round-trip/canonicity oracle (proptest), honest-message harvest from protocol runs",
        text="A per-type grammar written from the wire format builds canonical encodings and strings with exactly one known defect for ~30 message types × generated decoding parameters; two-sided oracle (canonical ⇒ accepted, defective ⇒ rejected) plus accepted ⇒ re-encodes to the same bytes ∧ encoded_len exact ∧ decode(encode(v)) = v; every message of honest Prio3/Poplar1/Prio2 runs is probed too.",
        note="Trusted: the layouts in engine/src/codec.rs (independent of the decoders). A libFuzzer tier with the same oracle is planned for the thorough command.",
        design="3/C07"),
    "C08": dict(
        technique="exhaustive short-string enumeration + header-extreme enumeration + mutation-based generation under panic/allocation/watchdog monitors",
        text="All byte strings of length ≤ 2 for a fixed table of 100+ (type, parameter) pairs and all 3-byte strings for header-bearing types are enumerated; header fields at extreme values × body lengths enumerated; generated near-valid encodings with all single-bit flips and truncations, splices and random strings; overflow checks on; per-thread allocation accounting with a bound proportional to input length and parameter size; supervised child process turns aborts/hangs into reproducible violations.",
        note="Trusted: the counting allocator; the allocation bound constants (64 KiB + 64·len + 8·nominal size).",
        design="3/C08"),
}

ALL = ["C%02d" % i for i in range(1, 21)]

def main():
    root = "/verif"
    hooks_commits = []
    try:
        out = subprocess.run(["git", "-C", "/repo", "log", "--format=%H %s"], capture_output=True, text=True).stdout
        for line in out.splitlines():
            h, s = line.split(" ", 1)
            if s.startswith("verif-hooks:"):
                hooks_commits.append(h)
    except Exception:
        pass
    checks = []
    for pid in ALL:
        if pid not in CHECKS:
            continue
        c = CHECKS[pid]
        checks.append({
            "property_id": pid,
            "quick_cmd": f"./check {pid} quick",
            "thorough_cmd": f"./check {pid} thorough",
            "evidence_file": f"/verif/evidence/{pid}.json",
            "replay_cmd_template": "./check replay {path}",
            "engine": "pv" + (" + fuzz" if c.get("fuzz") else ""),
            "level_claimed": {"category": "exploration", "text": c["text"], "design_ref": "DESIGN.md section " + c["design"]},
            "level_note": c["note"],
            "technique": c["technique"],
        })
    na = [{"property_id": p, "reason": "check not built yet in this round (planned in DESIGN.md section 3; the technique applies)"} for p in ALL if p not in CHECKS]
    m = {
        "version": 1,
        "setup_cmd": "./check build",
        "hooks": {
            "guard": "cargo feature verif-hooks (crate prio)",
            "enable": "the engine depends on prio by path (/repo) with features experimental,multithreaded,test-util,verif-hooks",
            "baseline_off_cmd": "cd /repo && cargo test --workspace --no-fail-fast --offline",
            "source_commits": hooks_commits,
            "add_only": True,
        },
        "engines": [
            {"name": "pv", "path": "/verif/engine", "serves_properties": [c["property_id"] for c in checks],
             "kind_free_text": "Rust binary: proptest TestRunner driven from main on 16 seeded workers + exhaustive small-scope enumerators + corpus replay; shrinks failures to JSON replay files; supervised child process for aborts/hangs"},
        ],
        "checks": checks,
        "not_applicable": na,
        "notes": "Exit codes of ./check: 0 held, 1 violation (VIOLATION line), 2 inconclusive (harness does not build against the tree / watchdog). Known findings: /verif/known_findings.txt.",
    }
    with open(os.path.join(root, "MANIFEST.json"), "w") as f:
        json.dump(m, f, indent=1)
    print("MANIFEST.json written:", len(checks), "checks,", len(na), "not applicable")

if __name__ == "__main__":
    main()
