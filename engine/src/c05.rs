//! C05 — FLP prove/query/decide: complete, sound, share-linear, length-exact.

use crate::c02::{apply_edits, Edit, ValSel};
use crate::gen::*;
use crate::harness::*;
use crate::p3::*;
use crate::util::*;
use num_bigint::BigUint;
use num_traits::{One, Zero};
use prio::field::{FieldElement, NttFriendlyFieldElement};
use proptest::prelude::*;
use serde::{Deserialize, Serialize};

pub struct C05;

#[derive(Clone, Copy, Debug, Serialize, Deserialize, PartialEq, Eq)]
pub enum RandKind {
    Uniform(u64),
    Zero,
    One,
    MinusOne,
    AllEqual(u64),
}

#[derive(Clone, Copy, Debug, Serialize, Deserialize, PartialEq, Eq)]
pub enum GadgetQ {
    Uniform(u64),
    Zero,
    One,
    MinusOne,
    /// ω^j for the principal root ω of the wire-polynomial domain
    DomainRoot(u16),
    /// an odd power of the principal root of twice the order (not in the domain: allowed)
    NextOrderRoot(u16),
}

#[derive(Clone, Debug, Serialize, Deserialize)]
pub struct Case {
    pub inst: Inst,
    pub base: Meas,
    pub edits: Vec<Edit>,
    pub prove: RandKind,
    pub joint: RandKind,
    pub query: RandKind,
    pub gadget_q: GadgetQ,
    pub n_shares: usize,
    pub share_seed: u64,
    /// 0: random shares, 1: some zero shares, 2: one share is the whole
    pub share_pattern: u8,
    pub delta: ValSel,
}

fn randkind() -> BoxedStrategy<RandKind> {
    prop_oneof![
        8 => any::<u64>().prop_map(RandKind::Uniform),
        2 => Just(RandKind::Zero),
        2 => Just(RandKind::One),
        1 => Just(RandKind::MinusOne),
        2 => any::<u64>().prop_map(RandKind::AllEqual),
    ]
    .boxed()
}

fn gadgetq() -> BoxedStrategy<GadgetQ> {
    prop_oneof![
        8 => any::<u64>().prop_map(GadgetQ::Uniform),
        1 => Just(GadgetQ::Zero),
        1 => Just(GadgetQ::One),
        1 => Just(GadgetQ::MinusOne),
        3 => any::<u16>().prop_map(GadgetQ::DomainRoot),
        2 => any::<u16>().prop_map(GadgetQ::NextOrderRoot),
    ]
    .boxed()
}

pub fn case_strategy(lim: Limits) -> BoxedStrategy<Case> {
    (
        inst_strategy(lim),
        (any::<u8>(), any::<u64>()),
        prop_oneof![3 => Just(vec![]), 2 => prop::collection::vec(edit_strategy(), 1..=3)],
        (randkind(), randkind(), randkind(), gadgetq()),
        (prop_oneof![20 => 1usize..=8, 2 => 9usize..=64, 1 => 250usize..=520], any::<u64>(), 0u8..3, crate::c02::valsel()),
    )
        .prop_map(|(inst, (sel, ms), edits, (prove, joint, query, gadget_q), (n_shares, share_seed, share_pattern, delta))| {
            let base = meas_from(&inst, sel, ms);
            Case { inst, base, edits, prove, joint, query, gadget_q, n_shares, share_seed, share_pattern, delta }
        })
        .boxed()
}

fn edit_strategy() -> BoxedStrategy<Edit> {
    prop_oneof![
        4 => (crate::c02::pos(), crate::c02::valsel()).prop_map(|(pos, val)| Edit::Set { pos, val }),
        2 => (crate::c02::pos(), crate::c02::valsel()).prop_map(|(pos, val)| Edit::Add { pos, val }),
        3 => (crate::c02::pos(), crate::c02::pos(), crate::c02::valsel()).prop_map(|(a, b, val)| Edit::Move { a, b, val }),
        2 => (crate::c02::pos(), crate::c02::pos(), crate::c02::valsel()).prop_map(|(a, b, val)| Edit::Both { a, b, val }),
        4 => (crate::c02::pos(), crate::c02::pos(), crate::c02::valsel()).prop_map(|(a, b, t)| Edit::Balanced { a, b, t }),
    ]
    .boxed()
}

fn rand_vec<F: FieldBig>(kind: RandKind, n: usize, stream: u64) -> Vec<F> {
    let p = F::modulus_big();
    (0..n)
        .map(|i| match kind {
            RandKind::Uniform(s) => F::from_big(&BigUint::from_bytes_le(&expand(s, stream * 100_000 + i as u64, 48))),
            RandKind::Zero => F::zero(),
            RandKind::One => F::one(),
            RandKind::MinusOne => F::from_big(&(&p - 1u32)),
            RandKind::AllEqual(s) => F::from_big(&BigUint::from_bytes_le(&expand(s, stream * 100_000, 48))),
        })
        .collect()
}

struct Run<'a> {
    case: &'a Case,
    obs: &'a mut Obs,
}

fn wire_poly_len(calls: usize) -> usize {
    (1 + calls).next_power_of_two()
}

impl<'a> TypeVisitor for Run<'a> {
    type Out = ();
    fn visit<T>(self, typ: T)
    where
        T: TypeBridge + 'static,
        T::Field: FieldBig,
    {
        let case = self.case;
        let obs = self.obs;
        let inst = &case.inst;
        let p = inst.field().modulus();
        type F<T> = <T as prio::flp::Flp>::Field;

        macro_rules! call {
            ($what:expr, $e:expr) => {
                match guard(|| $e) {
                    Ok(r) => r,
                    Err(pn) => {
                        obs.fail(format!("{}-{}", $what, panic_sig(&pn)), format!("{} panicked: {pn}", $what));
                        return;
                    }
                }
            };
        }

        // ---- (a) declared lengths against the model and against each other
        if typ.input_len() != inst.input_len() || typ.output_len() != inst.output_len() {
            obs.fail("len-accessors", format!("input_len/output_len = {}/{} but the documented encoding has {}/{}", typ.input_len(), typ.output_len(), inst.input_len(), inst.output_len()));
            return;
        }
        let gadgets = typ.gadget();
        if gadgets.len() != typ.num_gadgets() {
            obs.fail("num-gadgets", "num_gadgets() differs from gadget().len()");
            return;
        }
        let arity_sum: usize = gadgets.iter().map(|g| g.arity()).sum();
        if typ.prove_rand_len() != arity_sum {
            obs.fail("prove-rand-len", format!("prove_rand_len() = {} but the gadget arities sum to {arity_sum}", typ.prove_rand_len()));
            return;
        }
        let want_qr = typ.num_gadgets() + if typ.eval_output_len() > 1 { typ.eval_output_len() } else { 0 };
        if typ.query_rand_len() != want_qr {
            obs.fail("query-rand-len", format!("query_rand_len() = {} expected {want_qr}", typ.query_rand_len()));
            return;
        }
        let want_proof: usize = gadgets.iter().map(|g| g.arity() + g.degree() * (wire_poly_len(g.calls()) - 1) + 1).sum();
        if typ.proof_len() != want_proof || typ.proof_len() != crate::codec::p3_proof_len(inst) {
            obs.fail("proof-len", format!("proof_len() = {} but the construction gives {want_proof} (formula {})", typ.proof_len(), crate::codec::p3_proof_len(inst)));
            return;
        }
        let want_ver: usize = 1 + gadgets.iter().map(|g| g.arity() + 1).sum::<usize>();
        if typ.verifier_len() != want_ver {
            obs.fail("verifier-len", format!("verifier_len() = {} expected {want_ver}", typ.verifier_len()));
            return;
        }
        if gadgets[0].calls() != inst.gadget_calls() {
            obs.fail("gadget-calls", format!("gadget declares {} calls, the circuit makes {}", gadgets[0].calls(), inst.gadget_calls()));
            return;
        }

        // ---- the input vector
        let enc = model_encode(inst, &case.base).expect("generator: in-range base");
        let lib_enc = call!("encode_measurement", typ.encode_measurement(&T::to_meas(&case.base)));
        match lib_enc {
            Ok(v) => {
                let got: Vec<BigUint> = v.iter().map(|x| x.to_big()).collect();
                if got != enc {
                    obs.fail("encode-measurement", format!("encode_measurement({:?}) = {got:?}, documented encoding is {enc:?}", case.base));
                    return;
                }
            }
            Err(e) => {
                obs.fail("encode-measurement-err", format!("encode_measurement refused the in-range measurement {:?}: {e}", case.base));
                return;
            }
        }
        let mut vec = enc.clone();
        apply_edits(inst, &mut vec, &case.edits);
        let valid = model_valid(inst, &vec);
        obs.label(if valid { "input:valid" } else { "input:invalid" });
        if valid && vec != enc {
            obs.label("input:alternative-valid-encoding");
        }
        let input: Vec<F<T>> = vec.iter().map(F::<T>::from_big).collect();
        // truncate is the documented linear map, on any vector
        match call!("truncate", typ.truncate(input.clone())) {
            Ok(t) => {
                let got: Vec<BigUint> = t.iter().map(|x| x.to_big()).collect();
                let want = model_truncate(inst, &vec);
                if got != want {
                    obs.fail("truncate", format!("truncate gives {got:?}, the documented decoding gives {want:?}"));
                    return;
                }
            }
            Err(e) => {
                obs.fail("truncate-err", format!("truncate refused a vector of the right length: {e}"));
                return;
            }
        }

        // ---- randomness
        let prove_rand: Vec<F<T>> = rand_vec(case.prove, typ.prove_rand_len(), 1);
        let joint_rand: Vec<F<T>> = rand_vec(case.joint, typ.joint_rand_len(), 2);
        let mut query_rand: Vec<F<T>> = rand_vec(case.query, typ.query_rand_len(), 3);
        let calls = gadgets[0].calls();
        let wpl = wire_poly_len(calls);
        let log = wpl.trailing_zeros() as usize;
        let gq: F<T> = match case.gadget_q {
            GadgetQ::Uniform(s) => F::<T>::from_big(&BigUint::from_bytes_le(&expand(s, 7, 48))),
            GadgetQ::Zero => F::<T>::zero(),
            GadgetQ::One => F::<T>::one(),
            GadgetQ::MinusOne => F::<T>::from_big(&(&p - 1u32)),
            GadgetQ::DomainRoot(j) => {
                let w = F::<T>::root(log).expect("root");
                let e = idx16(j, wpl);
                (0..e).fold(F::<T>::one(), |a, _| a * w)
            }
            GadgetQ::NextOrderRoot(j) => {
                let w = F::<T>::root(log + 1).expect("root");
                let e = 2 * idx16(j, wpl) + 1;
                (0..e).fold(F::<T>::one(), |a, _| a * w)
            }
        };
        let gq_pos = typ.query_rand_len() - 1; // single gadget: the last entry
        query_rand[gq_pos] = gq;
        let gq_big = gq.to_big();
        let is_root = gq_big.modpow(&BigUint::from(wpl), &p).is_one();
        match case.gadget_q {
            GadgetQ::DomainRoot(_) => obs.label("gadget-q:domain-root"),
            GadgetQ::NextOrderRoot(_) => obs.label("gadget-q:next-order-root"),
            GadgetQ::Zero => obs.label("gadget-q:zero"),
            _ => {}
        }
        if is_root {
            obs.label("query-rand-is-domain-root");
        }
        let degenerate = !matches!(case.prove, RandKind::Uniform(_)) || !matches!(case.joint, RandKind::Uniform(_)) || !matches!(case.query, RandKind::Uniform(_));
        if degenerate {
            obs.label("degenerate-randomness");
        }
        if is_root || degenerate || case.n_shares >= 4 || inst.partial_last_chunk() {
            obs.nt();
        }
        if inst.partial_last_chunk() {
            obs.label("partial-last-chunk");
        }

        // ---- valid(): zero on valid inputs for every joint randomness
        match call!("valid", typ.valid(&mut typ.gadget(), &input, &joint_rand, 1)) {
            Ok(v) => {
                if v.len() != typ.eval_output_len() {
                    obs.fail("eval-output-len", format!("valid() returned {} elements, eval_output_len() = {}", v.len(), typ.eval_output_len()));
                    return;
                }
                let all_zero = v.iter().all(|x| x.to_big().is_zero());
                if valid && !all_zero {
                    obs.fail("valid-nonzero-on-valid-input", format!("valid() is non-zero on a valid input: {:?}", v.iter().map(|x| x.to_big()).collect::<Vec<_>>()));
                    return;
                }
            }
            Err(e) => {
                obs.fail("valid-err", format!("valid() refused well-formed arguments: {e}"));
                return;
            }
        }

        // ---- prove
        let proof = match call!("prove", typ.prove(&input, &prove_rand, &joint_rand)) {
            Ok(pf) => pf,
            Err(e) => {
                obs.fail("prove-err", format!("prove refused well-formed arguments: {e}"));
                return;
            }
        };
        if proof.len() != typ.proof_len() {
            obs.fail("proof-length", format!("prove returned {} elements, proof_len() = {}", proof.len(), typ.proof_len()));
            return;
        }

        // ---- (b) wrong lengths ⇒ Err, never a panic
        {
            let shorter = |v: &Vec<F<T>>| -> Vec<F<T>> { v[..v.len().saturating_sub(1)].to_vec() };
            let longer = |v: &Vec<F<T>>| -> Vec<F<T>> {
                let mut w = v.clone();
                w.push(F::<T>::one());
                w
            };
            let variants = |v: &Vec<F<T>>| -> Vec<Vec<F<T>>> {
                let mut out = vec![longer(v)];
                if !v.is_empty() {
                    out.push(shorter(v));
                    out.push(vec![]);
                }
                out
            };
            for (k, bad) in variants(&input).into_iter().enumerate() {
                match call!("prove(wrong input length)", typ.prove(&bad, &prove_rand, &joint_rand)) {
                    Err(_) => {}
                    Ok(_) => {
                        obs.fail("prove-accepts-wrong-input-len", format!("prove accepted an input of length {} (variant {k})", bad.len()));
                        return;
                    }
                }
                if call!("query(wrong input length)", typ.query(&bad, &proof, &query_rand, &joint_rand, 1)).is_ok() {
                    obs.fail("query-accepts-wrong-input-len", format!("query accepted an input of length {}", bad.len()));
                    return;
                }
                if call!("truncate(wrong length)", typ.truncate(bad.clone())).is_ok() {
                    obs.fail("truncate-accepts-wrong-len", format!("truncate accepted an input of length {}", bad.len()));
                    return;
                }
            }
            for bad in variants(&prove_rand) {
                if call!("prove(wrong prove_rand length)", typ.prove(&input, &bad, &joint_rand)).is_ok() {
                    obs.fail("prove-accepts-wrong-prove-rand-len", format!("prove accepted prover randomness of length {}", bad.len()));
                    return;
                }
            }
            for bad in variants(&joint_rand) {
                if call!("prove(wrong joint_rand length)", typ.prove(&input, &prove_rand, &bad)).is_ok() {
                    obs.fail("prove-accepts-wrong-joint-rand-len", format!("prove accepted joint randomness of length {}", bad.len()));
                    return;
                }
                if !is_root && call!("query(wrong joint_rand length)", typ.query(&input, &proof, &query_rand, &bad, 1)).is_ok() {
                    obs.fail("query-accepts-wrong-joint-rand-len", format!("query accepted joint randomness of length {}", bad.len()));
                    return;
                }
            }
            for bad in variants(&proof) {
                if call!("query(wrong proof length)", typ.query(&input, &bad, &query_rand, &joint_rand, 1)).is_ok() {
                    obs.fail("query-accepts-wrong-proof-len", format!("query accepted a proof of length {}", bad.len()));
                    return;
                }
            }
            for bad in variants(&query_rand) {
                if call!("query(wrong query_rand length)", typ.query(&input, &proof, &bad, &joint_rand, 1)).is_ok() {
                    obs.fail("query-accepts-wrong-query-rand-len", format!("query accepted query randomness of length {}", bad.len()));
                    return;
                }
            }
        }

        // ---- (f) query: root of the wire-polynomial domain refused, anything else served
        let verifier = match call!("query", typ.query(&input, &proof, &query_rand, &joint_rand, 1)) {
            Ok(v) => {
                if is_root {
                    obs.fail("domain-root-accepted", format!("query accepted gadget query randomness {gq_big} which is a root of unity of the wire-polynomial domain of size {wpl}"));
                    return;
                }
                v
            }
            Err(e) => {
                if !is_root {
                    obs.fail("query-err", format!("query refused well-formed arguments (gadget query randomness {gq_big} is not a {wpl}-th root of unity): {e}"));
                }
                return;
            }
        };
        if verifier.len() != typ.verifier_len() {
            obs.fail("verifier-length", format!("query returned {} elements, verifier_len() = {}", verifier.len(), typ.verifier_len()));
            return;
        }
        for bad in [verifier[..verifier.len() - 1].to_vec(), [verifier.clone(), vec![F::<T>::zero()]].concat(), vec![]] {
            if call!("decide(wrong length)", typ.decide(&bad)).is_ok() {
                obs.fail("decide-accepts-wrong-len", format!("decide accepted a verifier of length {}", bad.len()));
                return;
            }
        }
        let decision = match call!("decide", typ.decide(&verifier)) {
            Ok(d) => d,
            Err(e) => {
                obs.fail("decide-err", format!("decide refused a verifier of the declared length: {e}"));
                return;
            }
        };

        // ---- (c) completeness / (d) soundness
        let uniform_verifier = matches!(case.query, RandKind::Uniform(_)) && matches!(case.gadget_q, GadgetQ::Uniform(_)) && matches!(case.joint, RandKind::Uniform(_));
        if valid {
            if !decision {
                obs.fail("completeness", format!("a proof generated for a valid input was rejected (prove {:?}, joint {:?}, query {:?}, gadget point {gq_big})", case.prove, case.joint, case.query));
                return;
            }
        } else if uniform_verifier && decision {
            // re-test with three fresh, independent randomness choices
            let mut all = true;
            for k in 1..=3u64 {
                obs.label("soundness-retest");
                let jr: Vec<F<T>> = rand_vec(RandKind::Uniform(case.share_seed ^ (k * 7717)), typ.joint_rand_len(), 20 + k);
                let qr: Vec<F<T>> = rand_vec(RandKind::Uniform(case.share_seed ^ (k * 1913)), typ.query_rand_len(), 30 + k);
                let pf = match typ.prove(&input, &prove_rand, &jr) {
                    Ok(p) => p,
                    Err(_) => {
                        all = false;
                        break;
                    }
                };
                match typ.query(&input, &pf, &qr, &jr, 1).and_then(|v| typ.decide(&v)) {
                    Ok(true) => {}
                    _ => {
                        all = false;
                        break;
                    }
                }
            }
            if all {
                obs.fail("soundness", format!("an honestly generated proof for the INVALID input {:?} was accepted under 4 independent uniform randomness choices", vec.iter().take(40).collect::<Vec<_>>()));
                return;
            }
            obs.label("soundness-fluke");
        }

        // ---- (e) share linearity
        let n = case.n_shares;
        let split = |v: &Vec<F<T>>, stream: u64| -> Vec<Vec<F<T>>> {
            let mut shares: Vec<Vec<F<T>>> = vec![];
            let mut rest: Vec<BigUint> = v.iter().map(|x| x.to_big()).collect();
            for j in 1..n {
                let s: Vec<BigUint> = (0..v.len())
                    .map(|i| match case.share_pattern {
                        1 if j % 2 == 1 => BigUint::zero(),
                        2 => BigUint::zero(),
                        _ => BigUint::from_bytes_le(&expand(case.share_seed, stream * 1_000_003 + (j * 65537 + i) as u64, 48)) % &p,
                    })
                    .collect();
                for (r, x) in rest.iter_mut().zip(&s) {
                    *r = (&*r + &p - x) % &p;
                }
                shares.push(s.iter().map(F::<T>::from_big).collect());
            }
            shares.insert(0, rest.iter().map(F::<T>::from_big).collect());
            shares
        };
        let in_sh = split(&input, 1);
        let pf_sh = split(&proof, 2);
        let mut acc = vec![BigUint::zero(); typ.verifier_len()];
        for j in 0..n {
            match call!("query(share)", typ.query(&in_sh[j], &pf_sh[j], &query_rand, &joint_rand, n)) {
                Ok(v) => {
                    for (a, x) in acc.iter_mut().zip(v) {
                        *a = (&*a + x.to_big()) % &p;
                    }
                }
                Err(e) => {
                    obs.fail("query-share-err", format!("query refused share {j} of {n}: {e}"));
                    return;
                }
            }
        }
        let whole: Vec<BigUint> = verifier.iter().map(|x| x.to_big()).collect();
        if acc != whole {
            let i = acc.iter().zip(&whole).position(|(a, b)| a != b).unwrap();
            obs.fail("share-linearity", format!("verifier of the whole differs from the sum of the verifiers of {n} shares (first at index {i}: {} vs {})", whole[i], acc[i]));
            return;
        }
        if n >= 4 {
            obs.label("shares>=4");
        }
        if n >= 256 {
            obs.label("shares>=256");
        }

        // ---- (g) every proof position altered by a non-zero delta ⇒ rejected (valid input,
        // uniform verifier randomness)
        // (with degenerate prover randomness a wire polynomial can vanish identically, which makes
        // some proof positions irrelevant: e.g. seed 0 and input 0 — so uniform prover randomness)
        if valid && uniform_verifier && matches!(case.prove, RandKind::Uniform(_)) {
            let mut d = case.delta.big(&p);
            if d.is_zero() {
                d = BigUint::one();
            }
            let d = F::<T>::from_big(&d);
            for i in 0..proof.len() {
                let mut bad = proof.clone();
                bad[i] += d;
                let accepted = matches!(typ.query(&input, &bad, &query_rand, &joint_rand, 1).and_then(|v| typ.decide(&v)), Ok(true));
                if accepted {
                    // re-test under fresh query randomness
                    let mut all = true;
                    for k in 1..=3u64 {
                        obs.label("soundness-retest");
                        let qr: Vec<F<T>> = rand_vec(RandKind::Uniform(case.share_seed ^ (k * 2699)), typ.query_rand_len(), 40 + k);
                        if !matches!(typ.query(&input, &bad, &qr, &joint_rand, 1).and_then(|v| typ.decide(&v)), Ok(true)) {
                            all = false;
                            break;
                        }
                    }
                    if all {
                        obs.fail("altered-proof-accepted", format!("the proof with element {i} (of {}) altered by a non-zero delta was accepted under 4 independent query randomness choices", proof.len()));
                        return;
                    }
                }
            }
            obs.label("proof-positions-swept");
            obs.evals += proof.len() as u64;

            // ---- (h) the verifier message itself: every element, and pairs of elements altered
            // by (δ, δ) and (δ, −δ) — differences that cancel in a decision computed from a sum of
            // the individual checks — must be refused by decide
            if let Ok(v0) = typ.query(&input, &proof, &query_rand, &joint_rand, 1) {
                let m = v0.len();
                let mut plans: Vec<(usize, Option<(usize, bool)>)> = (0..m).map(|i| (i, None)).collect();
                let push_pair = |i: usize, j: usize, plans: &mut Vec<(usize, Option<(usize, bool)>)>| {
                    if i != j && i < m && j < m {
                        plans.push((i, Some((j, false))));
                        plans.push((i, Some((j, true))));
                    }
                };
                if m <= 24 {
                    for i in 0..m {
                        for j in i + 1..m {
                            push_pair(i, j, &mut plans);
                        }
                    }
                } else {
                    for j in 1..m {
                        push_pair(0, j, &mut plans);
                        push_pair(j - 1, j, &mut plans);
                        push_pair(j, m - 1, &mut plans);
                    }
                    for k in 0..64u64 {
                        let a = u128_from(case.share_seed ^ 0x51, k) as usize % m;
                        let b = u128_from(case.share_seed ^ 0x52, k) as usize % m;
                        push_pair(a.min(b), a.max(b), &mut plans);
                    }
                }
                let alter = |v: &mut Vec<F<T>>, plan: &(usize, Option<(usize, bool)>)| {
                    v[plan.0] += d;
                    if let Some((j, neg)) = plan.1 {
                        if neg {
                            v[j] -= d;
                        } else {
                            v[j] += d;
                        }
                    }
                };
                for plan in &plans {
                    let mut bad = v0.clone();
                    alter(&mut bad, plan);
                    if matches!(typ.decide(&bad), Ok(true)) {
                        let mut all = true;
                        for k in 1..=3u64 {
                            obs.label("soundness-retest");
                            let qr: Vec<F<T>> = rand_vec(RandKind::Uniform(case.share_seed ^ (k * 7717)), typ.query_rand_len(), 60 + k);
                            let again = typ.query(&input, &proof, &qr, &joint_rand, 1).map(|mut v| {
                                alter(&mut v, plan);
                                v
                            });
                            if !matches!(again.and_then(|v| typ.decide(&v)), Ok(true)) {
                                all = false;
                                break;
                            }
                        }
                        if all {
                            obs.fail("altered-verifier-accepted", format!("decide accepted a verifier message of {m} elements with element {} altered by δ{} under 4 independent query randomness choices", plan.0, match plan.1 { Some((j, true)) => format!(" and element {j} by −δ"), Some((j, false)) => format!(" and element {j} by δ"), None => String::new() }));
                            return;
                        }
                    }
                }
                obs.label("verifier-positions-and-pairs-swept");
                obs.evals += plans.len() as u64;
            }
        }
    }
}

impl Check for C05 {
    type Case = Case;
    const ID: &'static str = "C05";
    fn rule(&self) -> String {
        "proptest-generated (circuit instance on the parameter lattice over Field64/Field128, valid input incl. alternative valid bit patterns or invalid input built by edits, prover/joint/query randomness from {uniform, zeros, ones, −1, all-equal}, gadget query point from {uniform, 0, 1, −1, ω^j of the wire-polynomial domain, odd powers of the next-order root}, 1..8 (sometimes 9..64 or 250..520) shares with random / zero / degenerate sharings). Clause-by-clause oracle: declared lengths, wrong-length arguments ⇒ Err, valid() zero on valid inputs, completeness for every non-root randomness, soundness under uniform randomness (3 re-tests), Σ query(shares, n) = query(whole, 1), domain roots refused and non-roots served, every proof position +δ rejected, every verifier position +δ and position pairs (+δ,±δ) refused by decide. Non-trivial = root-of-unity point, degenerate randomness, ≥4 shares or partial last chunk; distinct by case hash".into()
    }
    fn strategy(&self, tier: Tier) -> BoxedStrategy<Case> {
        let mut lim = Limits::small();
        lim.max_input_len = tier.pick(160, 400);
        case_strategy(lim)
    }
    fn num_cases(&self, tier: Tier) -> u64 {
        tier.pick(12_000, 100_000)
    }
    fn enumerate(&self, tier: Tier, shard: usize, nshards: usize, f: &mut dyn FnMut(Case) -> bool) {
        // every root of the wire-polynomial domain for a ladder of call counts
        let max_log = tier.pick(6usize, 10);
        let mut i = 0usize;
        for log in 1..=max_log {
            let wpl = 1usize << log;
            // a histogram with chunk 1 has `len` gadget calls: pick len so that wire_poly_len = wpl
            let len = wpl - 1;
            for fk in [FieldKind::F64, FieldKind::F128] {
                let inst = Inst::Histogram { f: fk, len, chunk: 1, mt: false };
                for j in 0..wpl {
                    i += 1;
                    if i % nshards != shard {
                        continue;
                    }
                    // idx16 must map back to j exactly: choose the smallest u16 that does
                    let sel = (((j as u64) << 16).div_ceil(wpl as u64)) as u16;
                    let c = Case { inst: inst.clone(), base: Meas::Index(j % len), edits: vec![], prove: RandKind::Uniform(j as u64 + 3), joint: RandKind::Uniform(j as u64 + 5), query: RandKind::Uniform(j as u64 + 7), gadget_q: GadgetQ::DomainRoot(sel), n_shares: 2, share_seed: j as u64, share_pattern: 0, delta: ValSel::One };
                    if !f(c) {
                        return;
                    }
                }
            }
        }
    }
    fn enumerated_space(&self, tier: Tier) -> Option<String> {
        Some(format!("every root of unity ω^j of every wire-polynomial domain of size 2..2^{} (Histogram with chunk length 1, both fields): each must be refused as gadget query point", tier.pick(6, 10)))
    }
    fn run(&self, case: &Case) -> Outcome {
        let mut obs = Obs::new();
        obs.label(format!("type:{}", case.inst.name()));
        obs.label(format!("field:{:?}", case.inst.field()));
        if let Err(e) = with_type(&case.inst, Run { case, obs: &mut obs }) {
            obs.fail("constructor-refused-admissible-parameters", format!("constructor refused {:?}: {e}", case.inst));
        }
        obs.finish()
    }
}
