//! C02 — Prio3 robustness: invalid or tampered reports never yield output shares.

use crate::gen::*;
use crate::harness::*;
use crate::p3::*;
use crate::util::*;
use num_bigint::BigUint;
use num_traits::{One, Zero};
use prio::flp::{Flp, FlpError, Gadget, Type};
use prio::vdaf::prio3::Prio3;
use prio::vdaf::xof::Xof;
use proptest::prelude::*;
use serde::{Deserialize, Serialize};

pub struct C02;

// ------------------------------------------------------------------------------------------------
// The malicious client device: the real sharding code run on an arbitrary vector.

#[derive(Clone, Debug, PartialEq, Eq)]
pub struct Evil<T: Type>(pub T);

impl<T: Type> Flp for Evil<T> {
    type Field = T::Field;
    fn gadget(&self) -> Vec<Box<dyn Gadget<Self::Field>>> {
        self.0.gadget()
    }
    fn num_gadgets(&self) -> usize {
        self.0.num_gadgets()
    }
    fn valid(&self, g: &mut Vec<Box<dyn Gadget<Self::Field>>>, input: &[Self::Field], joint_rand: &[Self::Field], num_shares: usize) -> Result<Vec<Self::Field>, FlpError> {
        self.0.valid(g, input, joint_rand, num_shares)
    }
    fn input_len(&self) -> usize {
        self.0.input_len()
    }
    fn proof_len(&self) -> usize {
        self.0.proof_len()
    }
    fn verifier_len(&self) -> usize {
        self.0.verifier_len()
    }
    fn joint_rand_len(&self) -> usize {
        self.0.joint_rand_len()
    }
    fn eval_output_len(&self) -> usize {
        self.0.eval_output_len()
    }
    fn prove_rand_len(&self) -> usize {
        self.0.prove_rand_len()
    }
}

impl<T: Type> Type for Evil<T> {
    type Measurement = Vec<T::Field>;
    type AggregateResult = T::AggregateResult;
    fn encode_measurement(&self, m: &Vec<T::Field>) -> Result<Vec<T::Field>, FlpError> {
        if m.len() != self.0.input_len() {
            return Err(FlpError::Encode("harness: wrong vector length".into()));
        }
        Ok(m.clone())
    }
    fn truncate(&self, input: Vec<T::Field>) -> Result<Vec<T::Field>, FlpError> {
        self.0.truncate(input)
    }
    fn decode_result(&self, data: &[T::Field], n: usize) -> Result<T::AggregateResult, FlpError> {
        self.0.decode_result(data, n)
    }
    fn output_len(&self) -> usize {
        self.0.output_len()
    }
}

// ------------------------------------------------------------------------------------------------
// Cases

#[derive(Clone, Copy, Debug, Serialize, Deserialize, PartialEq, Eq)]
pub enum ValSel {
    Zero,
    One,
    Two,
    MinusOne,
    MinusTwo,
    Half,
    Rand(u64),
}

impl ValSel {
    pub fn big(self, p: &BigUint) -> BigUint {
        match self {
            ValSel::Zero => BigUint::zero(),
            ValSel::One => BigUint::one(),
            ValSel::Two => BigUint::from(2u32),
            ValSel::MinusOne => p - 1u32,
            ValSel::MinusTwo => p - 2u32,
            ValSel::Half => (p + 1u32) / 2u32,
            ValSel::Rand(s) => BigUint::from_bytes_le(&expand(s, 31, 40)) % p,
        }
    }
}

pub fn valsel() -> BoxedStrategy<ValSel> {
    prop_oneof![
        1 => Just(ValSel::Zero),
        1 => Just(ValSel::One),
        2 => Just(ValSel::Two),
        2 => Just(ValSel::MinusOne),
        1 => Just(ValSel::MinusTwo),
        1 => Just(ValSel::Half),
        2 => any::<u64>().prop_map(ValSel::Rand),
    ]
    .boxed()
}

/// Position selector: 0 → first, 1 → last, 2 → first of the last chunk, else → idx16
#[derive(Clone, Copy, Debug, Serialize, Deserialize, PartialEq, Eq)]
pub struct Pos(pub u8, pub u16);

impl Pos {
    pub fn at(self, len: usize, chunk: Option<usize>) -> usize {
        if len == 0 {
            return 0;
        }
        match self.0 % 6 {
            0 => 0,
            1 => len - 1,
            2 => match chunk {
                Some(c) if c > 0 => ((len - 1) / c) * c,
                _ => len / 2,
            },
            _ => idx16(self.1, len),
        }
    }
}

pub fn pos() -> BoxedStrategy<Pos> {
    (any::<u8>(), any::<u16>()).prop_map(|(a, b)| Pos(a, b)).boxed()
}

#[derive(Clone, Debug, Serialize, Deserialize)]
pub enum Edit {
    Set { pos: Pos, val: ValSel },
    Add { pos: Pos, val: ValSel },
    /// a += val, b -= val (keeps the sum of the entries)
    Move { a: Pos, b: Pos, val: ValSel },
    /// a += val, b += val (e.g. bucket and claimed-weight digit)
    Both { a: Pos, b: Pos, val: ValSel },
    /// a += w_b·t, b −= w_a·t with w the coefficients of the type's linear relation: the sum /
    /// weight / norm check still holds and only the bit checks of a and b can refuse the vector
    /// (plain Move for types without a linear relation)
    Balanced { a: Pos, b: Pos, t: ValSel },
    /// the same at exact indices (enumerated sweep over all position pairs)
    BalancedAt { i: usize, j: usize, t: ValSel },
}

#[derive(Clone, Debug, Serialize, Deserialize)]
pub enum MsgSel {
    /// every aggregator's copy of the public share
    PublicAll,
    /// only this aggregator's copy
    PublicOne(u8),
    Input(u8),
    VerifierShare(u8),
    /// the verifier message as delivered to every aggregator
    MessageAll,
    MessageOne(u8),
}

#[derive(Clone, Debug, Serialize, Deserialize)]
pub enum Op {
    FlipBit { msg: MsgSel, bit: u16 },
    XorByte { msg: MsgSel, pos: u16, mask: u8 },
    /// a correlated multi-byte alteration: `k` distinct positions chosen from `seed`; mode 0 = the
    /// same mask anywhere, 1 = the same mask inside the last 32 bytes (where seeds live), 2 = two
    /// bytes of the last 32 changed by +d / −d, 3 = two differing bytes of the last 32 exchanged.
    /// (Differences that cancel under an XOR-, sum- or multiset-fold comparison.)
    XorMulti { msg: MsgSel, seed: u64, k: u8, mode: u8, mask: u8 },
    /// decode-modify-encode element `idx` of the element region of the message
    AddElem { msg: MsgSel, idx: u16, delta: ValSel },
    /// the same at an exact element index (used by the exhaustive position sweep)
    AddElemAt { msg: MsgSel, at: usize, delta: ValSel },
    /// ONE message altered at two elements: element a += δ and element b ± δ (differences that
    /// cancel in a decision computed from a sum of the individual checks)
    AddElemPair { msg: MsgSel, a: usize, b: usize, delta: ValSel, neg: bool },
    Truncate { msg: MsgSel, k: u8 },
    Extend { msg: MsgSel, k: u8 },
    SwapInputShares { i: u8, j: u8 },
    SwapVerifierShares { i: u8, j: u8 },
    DropVerifierShare { i: u8 },
    DupVerifierShare { i: u8 },
    /// verifier share j replaced by a copy of share i
    ReplaceVerifierShare { i: u8, j: u8 },
    /// the verifier message replaced by that of another report
    ForeignMessage,
}

#[derive(Clone, Debug, Serialize, Deserialize)]
pub enum Case {
    /// a vector (valid encoding of `base` plus edits) sharded by the real code with an honest proof
    Client { cfg: VdafCfg, ctx: Hex, key_seed: u64, nonce_seed: u64, rand_seed: u64, base: Meas, edits: Vec<Edit> },
    /// an honest report altered in transit
    Tamper { cfg: VdafCfg, ctx: Hex, key_seed: u64, nonce_seed: u64, rand_seed: u64, meas: Meas, ops: Vec<Op> },
}

fn edit_strategy() -> BoxedStrategy<Edit> {
    prop_oneof![
        4 => (pos(), valsel()).prop_map(|(pos, val)| Edit::Set { pos, val }),
        2 => (pos(), valsel()).prop_map(|(pos, val)| Edit::Add { pos, val }),
        3 => (pos(), pos(), valsel()).prop_map(|(a, b, val)| Edit::Move { a, b, val }),
        2 => (pos(), pos(), valsel()).prop_map(|(a, b, val)| Edit::Both { a, b, val }),
        4 => (pos(), pos(), valsel()).prop_map(|(a, b, t)| Edit::Balanced { a, b, t }),
    ]
    .boxed()
}

fn msgsel() -> BoxedStrategy<MsgSel> {
    prop_oneof![
        2 => Just(MsgSel::PublicAll),
        1 => any::<u8>().prop_map(MsgSel::PublicOne),
        4 => any::<u8>().prop_map(MsgSel::Input),
        3 => any::<u8>().prop_map(MsgSel::VerifierShare),
        2 => Just(MsgSel::MessageAll),
        1 => any::<u8>().prop_map(MsgSel::MessageOne),
    ]
    .boxed()
}

fn op_strategy() -> BoxedStrategy<Op> {
    prop_oneof![
        5 => (msgsel(), any::<u16>()).prop_map(|(msg, bit)| Op::FlipBit { msg, bit }),
        2 => (msgsel(), any::<u16>(), 1u8..=255).prop_map(|(msg, pos, mask)| Op::XorByte { msg, pos, mask }),
        3 => (msgsel(), any::<u64>(), 2u8..=6, 0u8..4, 1u8..=255).prop_map(|(msg, seed, k, mode, mask)| Op::XorMulti { msg, seed, k, mode, mask }),
        6 => (msgsel(), any::<u16>(), valsel()).prop_map(|(msg, idx, delta)| Op::AddElem { msg, idx, delta }),
        2 => (msgsel(), any::<u16>(), any::<u16>(), valsel(), any::<bool>()).prop_map(|(msg, a, b, delta, neg)| Op::AddElemPair { msg, a: if a % 3 == 0 { 0 } else { a as usize }, b: if b % 3 == 0 { usize::MAX } else { b as usize }, delta, neg }),
        1 => (msgsel(), 1u8..=40).prop_map(|(msg, k)| Op::Truncate { msg, k }),
        1 => (msgsel(), 1u8..=3).prop_map(|(msg, k)| Op::Extend { msg, k }),
        1 => (any::<u8>(), any::<u8>()).prop_map(|(i, j)| Op::SwapInputShares { i, j }),
        1 => (any::<u8>(), any::<u8>()).prop_map(|(i, j)| Op::SwapVerifierShares { i, j }),
        1 => any::<u8>().prop_map(|i| Op::DropVerifierShare { i }),
        1 => any::<u8>().prop_map(|i| Op::DupVerifierShare { i }),
        1 => (any::<u8>(), any::<u8>()).prop_map(|(i, j)| Op::ReplaceVerifierShare { i, j }),
        1 => Just(Op::ForeignMessage),
    ]
    .boxed()
}

pub fn case_strategy(lim: Limits) -> BoxedStrategy<Case> {
    let client = (cfg_strategy(lim), ctx_strategy(), any::<u64>(), seed_strategy(), seed_strategy(), (any::<u8>(), any::<u64>()), prop::collection::vec(edit_strategy(), 1..=3))
        .prop_map(|(cfg, ctx, key_seed, nonce_seed, rand_seed, (sel, ms), edits)| {
            let base = meas_from(&cfg.inst, sel, ms);
            Case::Client { cfg, ctx, key_seed: key_seed | 2, nonce_seed, rand_seed, base, edits }
        });
    let tamper = (cfg_strategy(lim), ctx_strategy(), any::<u64>(), seed_strategy(), seed_strategy(), (any::<u8>(), any::<u64>()), prop_oneof![3 => prop::collection::vec(op_strategy(), 1..=1), 1 => prop::collection::vec(op_strategy(), 2..=3)])
        .prop_map(|(cfg, ctx, key_seed, nonce_seed, rand_seed, (sel, ms), ops)| {
            let meas = meas_from(&cfg.inst, sel, ms);
            Case::Tamper { cfg, ctx, key_seed: key_seed | 2, nonce_seed, rand_seed, meas, ops }
        });
    prop_oneof![1 => client, 1 => tamper].boxed()
}

pub fn apply_edits(inst: &Inst, v: &mut [BigUint], edits: &[Edit]) {
    let p = inst.field().modulus();
    let n = v.len();
    let c = inst.chunk();
    for e in edits {
        match e {
            Edit::Set { pos, val } => v[pos.at(n, c)] = val.big(&p),
            Edit::Add { pos, val } => {
                let i = pos.at(n, c);
                v[i] = (&v[i] + val.big(&p)) % &p;
            }
            Edit::Move { a, b, val } => {
                let (i, j) = (a.at(n, c), b.at(n, c));
                if i != j {
                    let d = val.big(&p);
                    v[i] = (&v[i] + &d) % &p;
                    v[j] = (&v[j] + &p - &d) % &p;
                }
            }
            Edit::Both { a, b, val } => {
                let (i, j) = (a.at(n, c), b.at(n, c));
                if i != j {
                    let d = val.big(&p);
                    v[i] = (&v[i] + &d) % &p;
                    v[j] = (&v[j] + &d) % &p;
                }
            }
            Edit::Balanced { .. } | Edit::BalancedAt { .. } => {
                let (i, j, t) = match e {
                    Edit::Balanced { a, b, t } => (a.at(n, c), b.at(n, c), t),
                    Edit::BalancedAt { i, j, t } => (*i % n.max(1), *j % n.max(1), t),
                    _ => unreachable!(),
                };
                if i != j {
                    let t = t.big(&p);
                    let (wi, wj) = match affine_weights(inst) {
                        Some(w) if w.len() == n => (w[i].clone(), w[j].clone()),
                        _ => (BigUint::one(), BigUint::one()),
                    };
                    v[i] = (&v[i] + &wj * &t) % &p;
                    v[j] = (&v[j] + &p - (&wi * &t) % &p) % &p;
                }
            }
        }
    }
}

// ------------------------------------------------------------------------------------------------
// Execution

#[derive(Debug)]
pub enum Attempt {
    /// every aggregator finished; encoded output shares
    Completed(Vec<Vec<u8>>),
    Rejected(String),
    Panicked(Fail),
}

fn to_attempt(r: Result<Vec<Vec<u8>>, Fail>) -> Attempt {
    match r {
        Ok(o) => Attempt::Completed(o),
        Err(f) if f.is_panic() => Attempt::Panicked(f),
        Err(f) => Attempt::Rejected(f.describe()),
    }
}

fn sum_outputs<F: FieldBig>(outs: &[Vec<u8>], p: &BigUint) -> Option<Vec<BigUint>> {
    let mut acc: Option<Vec<BigUint>> = None;
    for o in outs {
        let v: Vec<F> = decode_vec(o)?;
        match &mut acc {
            None => acc = Some(v.iter().map(|x| x.to_big()).collect()),
            Some(a) => {
                if a.len() != v.len() {
                    return None;
                }
                for (s, x) in a.iter_mut().zip(v) {
                    *s = (&*s + x.to_big()) % p;
                }
            }
        }
    }
    acc
}

struct Run<'a> {
    case: &'a Case,
    obs: &'a mut Obs,
}

fn mutate_bytes(b: &mut Vec<u8>, op: &Op, elem_size: usize, elem_region: (usize, usize), p: &BigUint) -> bool {
    // returns true if the bytes really changed
    let before = b.clone();
    match op {
        Op::FlipBit { bit, .. } => {
            if !b.is_empty() {
                let i = idx16(*bit, b.len() * 8);
                b[i / 8] ^= 1 << (i % 8);
            }
        }
        Op::XorByte { pos, mask, .. } => {
            if !b.is_empty() {
                let i = idx16(*pos, b.len());
                b[i] ^= *mask;
            }
        }
        Op::XorMulti { seed, k, mode, mask, .. } => {
            let len = b.len();
            if len >= 2 {
                let (lo, span) = if *mode == 0 || len < 32 { (0, len) } else { (len - 32, 32) };
                let k = if *mode >= 2 { 2 } else { (*k as usize).clamp(2, span) };
                // k distinct positions by a partial shuffle driven by the seed
                let r = expand(*seed, 0xC02, span.min(64));
                let mut idx: Vec<usize> = (0..span).collect();
                for t in 0..k {
                    let j = t + (r[t % r.len()] as usize) % (span - t);
                    idx.swap(t, j);
                }
                let pos: Vec<usize> = idx[..k].iter().map(|i| lo + i).collect();
                match *mode {
                    0 | 1 => {
                        for &i in &pos {
                            b[i] ^= *mask;
                        }
                    }
                    2 => {
                        b[pos[0]] = b[pos[0]].wrapping_add(*mask);
                        b[pos[1]] = b[pos[1]].wrapping_sub(*mask);
                    }
                    _ => {
                        // exchange two differing bytes (search from the chosen pair onwards)
                        let (a, mut c) = (pos[0], pos[1]);
                        let mut tries = 0;
                        while b[a] == b[c] && tries < span {
                            c = lo + (c - lo + 1) % span;
                            tries += 1;
                        }
                        b.swap(a, c);
                    }
                }
            }
        }
        Op::AddElem { delta, .. } | Op::AddElemAt { delta, .. } => {
            let (start, count) = elem_region;
            let (idx, exact) = match op {
                Op::AddElem { idx, .. } => (*idx as usize, false),
                Op::AddElemAt { at, .. } => (*at, true),
                _ => unreachable!(),
            };
            if count > 0 && start + count * elem_size <= b.len() {
                let k = if exact { idx % count } else { idx16(idx as u16, count) };
                let i = start + k * elem_size;
                let cur = BigUint::from_bytes_le(&b[i..i + elem_size]);
                let mut d = delta.big(p);
                if d.is_zero() {
                    d = BigUint::one();
                }
                let nv = (cur + d) % p;
                let mut nb = nv.to_bytes_le();
                nb.resize(elem_size, 0);
                b[i..i + elem_size].copy_from_slice(&nb);
            } else if !b.is_empty() {
                // no element region (seeds only): fall back to a bit flip
                let i = if exact { idx % (b.len() * 8) } else { idx16(idx as u16, b.len() * 8) };
                b[i / 8] ^= 1 << (i % 8);
            }
        }
        Op::AddElemPair { a, b: bb, delta, neg, .. } => {
            let (start, count) = elem_region;
            if count >= 2 && start + count * elem_size <= b.len() {
                let (ia, ib) = (*a % count, *bb % count);
                if ia != ib {
                    let mut d = delta.big(p);
                    if d.is_zero() {
                        d = BigUint::one();
                    }
                    for (k, sub) in [(ia, false), (ib, *neg)] {
                        let i = start + k * elem_size;
                        let cur = BigUint::from_bytes_le(&b[i..i + elem_size]);
                        let nv = if sub { (cur + p - &d) % p } else { (cur + &d) % p };
                        let mut nb = nv.to_bytes_le();
                        nb.resize(elem_size, 0);
                        b[i..i + elem_size].copy_from_slice(&nb);
                    }
                }
            }
        }
        Op::Truncate { k, .. } => {
            let k = (*k as usize).min(b.len());
            let n = b.len() - k;
            b.truncate(n);
        }
        Op::Extend { k, .. } => b.extend(std::iter::repeat(0xA5u8).take(*k as usize)),
        _ => {}
    }
    *b != before
}

impl<'a> VdafVisitor for Run<'a> {
    type Out = ();
    fn visit<T, P>(self, vdaf: Prio3<T, P, 32>, typ: T)
    where
        T: TypeBridge + 'static,
        T::Field: FieldBig,
        P: Xof<32> + 'static,
    {
        let obs = self.obs;
        match self.case {
            Case::Client { cfg, ctx, key_seed, nonce_seed, rand_seed, base, edits } => {
                let p = cfg.inst.field().modulus();
                let n = cfg.n_agg as usize;
                let mut vec = model_encode(&cfg.inst, base).expect("generator: base measurement in range");
                let honest_vec = vec.clone();
                apply_edits(&cfg.inst, &mut vec, edits);
                let valid = model_valid(&cfg.inst, &vec);
                obs.label(if valid { "client:valid-twin" } else { "client:invalid" });
                if !valid {
                    obs.nt();
                    let one = BigUint::one();
                    if vec.iter().all(|x| x.is_zero() || *x == one) {
                        obs.label("client:bits-but-wrong-weight");
                    } else {
                        // a near miss satisfies the affine part (weight / norm equation) only
                        let mut bits_only = vec.clone();
                        for x in bits_only.iter_mut() {
                            if !(x.is_zero() || *x == one) {
                                *x = BigUint::zero();
                            }
                        }
                        let _ = bits_only;
                        obs.label("client:non-bit-entry");
                    }
                } else if vec != honest_vec {
                    obs.nt();
                    obs.label("client:alternative-valid-encoding");
                }
                let fvec: Vec<T::Field> = vec.iter().map(T::Field::from_big).collect();
                let evil = match Prio3::<Evil<T>, P, 32>::new(cfg.n_agg, cfg.n_proofs, cfg.alg_id, Evil(typ)) {
                    Ok(e) => e,
                    Err(e) => {
                        obs.fail("evil-ctor", format!("harness: cannot build the malicious-client instance: {e}"));
                        return;
                    }
                };
                let nonce: [u8; 16] = arr_from(*nonce_seed);
                let rand = bytes_from(*rand_seed, cfg.rand_len());
                let sh = match shard_wire(&evil, &ctx.0, &fvec, &nonce, &rand) {
                    Ok(s) => s,
                    Err(f) => {
                        // proving an invalid input may legitimately fail; a panic may not
                        if f.is_panic() {
                            obs.fail(format!("client-shard-{}", panic_sig(&f.describe())), format!("sharding an arbitrary vector panicked: {}", f.describe()));
                        } else {
                            obs.label("client:shard-refused");
                        }
                        return;
                    }
                };
                // self-check of the device: for the untouched vector the bytes equal the honest client's
                if vec == honest_vec {
                    let m = T::to_meas(base);
                    if let Ok(h) = shard_wire(&vdaf, &ctx.0, &m, &nonce, &rand) {
                        if h.public_share != sh.public_share || h.input_shares != sh.input_shares {
                            obs.fail("evil-device-selfcheck", "harness: the malicious-client device does not reproduce the honest client's bytes for a valid vector");
                            return;
                        }
                    }
                }
                let attempt = |key_seed: u64| -> Attempt {
                    let key: [u8; 32] = arr_from(key_seed);
                    let inputs: Vec<AggInput> = (0..n).map(|j| AggInput { agg_id: j, verify_key: key, ctx: ctx.0.clone(), nonce, public_share: sh.public_share.clone(), input_share: sh.input_shares[j].clone() }).collect();
                    to_attempt(verify_report_wire(&vdaf, &(), &inputs))
                };
                match attempt(*key_seed) {
                    Attempt::Panicked(f) => obs.fail(format!("client-{}-{}", f.stage(), panic_sig(&f.describe())), format!("verification of a client-built report panicked: {}", f.describe())),
                    Attempt::Rejected(why) => {
                        obs.label("rejected");
                        if valid {
                            obs.fail("valid-vector-rejected", format!("a vector that is a valid encoding for {:?} was rejected: {why}", cfg.inst));
                        }
                    }
                    Attempt::Completed(outs) => {
                        obs.label("completed");
                        if valid {
                            let want = model_truncate(&cfg.inst, &vec);
                            match sum_outputs::<T::Field>(&outs, &p) {
                                Some(got) if got == want => {}
                                got => obs.fail("valid-twin-output", format!("valid vector accepted but outputs sum to {got:?}, truncation is {want:?}")),
                            }
                        } else {
                            // re-test rule: three fresh verification keys
                            let mut all = true;
                            for k in 1..=3u64 {
                                obs.label("soundness-retest");
                                if !matches!(attempt(key_seed.wrapping_mul(0x9E37).wrapping_add(k * 7919) | 2), Attempt::Completed(_)) {
                                    all = false;
                                    break;
                                }
                            }
                            if all {
                                obs.fail("invalid-vector-accepted", format!("a report whose shared vector is not a valid encoding for {:?} completed verification under 4 independent verification keys; vector = {:?}", cfg.inst, vec.iter().take(40).collect::<Vec<_>>()));
                            } else {
                                obs.label("soundness-fluke");
                            }
                        }
                    }
                }
            }
            Case::Tamper { cfg, ctx, key_seed, nonce_seed, rand_seed, meas, ops } => {
                let p = cfg.inst.field().modulus();
                let n = cfg.n_agg as usize;
                let es = cfg.inst.field().size();
                let m = T::to_meas(meas);
                let nonce: [u8; 16] = arr_from(*nonce_seed);
                let rand = bytes_from(*rand_seed, cfg.rand_len());
                let sh = match shard_wire(&vdaf, &ctx.0, &m, &nonce, &rand) {
                    Ok(s) => s,
                    Err(f) => {
                        obs.fail("honest-shard", format!("honest sharding failed: {}", f.describe()));
                        return;
                    }
                };
                // a second honest report for ForeignMessage
                let rand2 = bytes_from(rand_seed.wrapping_add(0x1234567) | 2, cfg.rand_len());
                let nonce2: [u8; 16] = arr_from(nonce_seed.wrapping_add(0x7654321) | 2);
                let sh2 = shard_wire(&vdaf, &ctx.0, &m, &nonce2, &rand2).ok();
                let proof_len_total = crate::codec::p3_proof_len(&cfg.inst) * cfg.n_proofs as usize;
                let verifier_len_total = crate::codec::p3_verifier_len(&cfg.inst) * cfg.n_proofs as usize;

                // honest outputs for comparison
                let honest = |key: [u8; 32]| -> Result<Vec<Vec<u8>>, Fail> {
                    let inputs: Vec<AggInput> = (0..n).map(|j| AggInput { agg_id: j, verify_key: key, ctx: ctx.0.clone(), nonce, public_share: sh.public_share.clone(), input_share: sh.input_shares[j].clone() }).collect();
                    verify_report_wire(&vdaf, &(), &inputs)
                };

                let really_altered = std::cell::Cell::new(0usize);
                let input_touched = std::cell::Cell::new(false);
                let weak_only = std::cell::Cell::new(false);
                let attempt = |key_seed: u64| -> Attempt {
                    really_altered.set(0);
                    input_touched.set(false);
                    weak_only.set(false);
                    let key: [u8; 32] = arr_from(key_seed);
                    let mut publics: Vec<Vec<u8>> = vec![sh.public_share.clone(); n];
                    let mut inputs_b: Vec<Vec<u8>> = sh.input_shares.clone();
                    let bump = |c: bool| {
                        if c {
                            really_altered.set(really_altered.get() + 1)
                        }
                    };
                    // phase 1: client → aggregators
                    for op in ops {
                        match op {
                            Op::SwapInputShares { i, j } => {
                                if n >= 3 {
                                    let (a, b) = (1 + *i as usize % (n - 1), 1 + *j as usize % (n - 1));
                                    if inputs_b[a] != inputs_b[b] {
                                        inputs_b.swap(a, b);
                                        bump(true);
                                        input_touched.set(true);
                                    }
                                }
                            }
                            Op::FlipBit { msg, .. } | Op::XorByte { msg, .. } | Op::XorMulti { msg, .. } | Op::AddElem { msg, .. } | Op::AddElemAt { msg, .. } | Op::AddElemPair { msg, .. } | Op::Truncate { msg, .. } | Op::Extend { msg, .. } => match msg {
                                MsgSel::PublicAll => {
                                    let mut b = publics[0].clone();
                                    let ch = mutate_bytes(&mut b, op, es, (0, 0), &p);
                                    if ch {
                                        for q in publics.iter_mut() {
                                            *q = b.clone();
                                        }
                                    }
                                    bump(ch);
                                }
                                MsgSel::PublicOne(j) => {
                                    let j = *j as usize % n;
                                    let ch = mutate_bytes(&mut publics[j], op, es, (0, 0), &p);
                                    if ch {
                                        // an aggregator's own part in its own copy is not used: weak oracle
                                        weak_only.set(true);
                                    }
                                    bump(ch);
                                }
                                MsgSel::Input(j) => {
                                    let j = *j as usize % n;
                                    let region = if j == 0 { (0, cfg.inst.input_len() + proof_len_total) } else { (0, 0) };
                                    let ch = mutate_bytes(&mut inputs_b[j], op, es, region, &p);
                                    bump(ch);
                                    if ch {
                                        input_touched.set(true);
                                    }
                                }
                                _ => {}
                            },
                            _ => {}
                        }
                    }
                    let mut states = vec![];
                    let mut shares = vec![];
                    for j in 0..n {
                        let a = AggInput { agg_id: j, verify_key: key, ctx: ctx.0.clone(), nonce, public_share: publics[j].clone(), input_share: inputs_b[j].clone() };
                        match init_wire(&vdaf, &(), &a) {
                            Ok(o) => {
                                states.push(o.state);
                                shares.push(o.verifier_share);
                            }
                            Err(f) if f.is_panic() => return Attempt::Panicked(f),
                            Err(f) => return Attempt::Rejected(f.describe()),
                        }
                    }
                    // phase 2: verifier shares in transit
                    for op in ops {
                        match op {
                            Op::SwapVerifierShares { i, j } => {
                                let (a, b) = (*i as usize % shares.len(), *j as usize % shares.len());
                                if shares[a] != shares[b] {
                                    shares.swap(a, b);
                                    bump(true);
                                    // a permutation alters no share; only ordering-sensitive parts notice
                                    weak_only.set(true);
                                }
                            }
                            Op::DropVerifierShare { i } => {
                                let a = *i as usize % shares.len();
                                shares.remove(a);
                                bump(true);
                                if shares.is_empty() {
                                    return Attempt::Rejected("no shares left".into());
                                }
                            }
                            Op::DupVerifierShare { i } => {
                                let a = *i as usize % shares.len();
                                let s = shares[a].clone();
                                shares.push(s);
                                bump(true);
                            }
                            Op::ReplaceVerifierShare { i, j } => {
                                let (a, b) = (*i as usize % shares.len(), *j as usize % shares.len());
                                if shares[a] != shares[b] {
                                    shares[b] = shares[a].clone();
                                    bump(true);
                                }
                            }
                            Op::FlipBit { msg: MsgSel::VerifierShare(j), .. } | Op::XorByte { msg: MsgSel::VerifierShare(j), .. } | Op::XorMulti { msg: MsgSel::VerifierShare(j), .. } | Op::AddElem { msg: MsgSel::VerifierShare(j), .. } | Op::AddElemAt { msg: MsgSel::VerifierShare(j), .. } | Op::AddElemPair { msg: MsgSel::VerifierShare(j), .. } | Op::Truncate { msg: MsgSel::VerifierShare(j), .. } | Op::Extend { msg: MsgSel::VerifierShare(j), .. } => {
                                let j = *j as usize % shares.len();
                                let ch = mutate_bytes(&mut shares[j], op, es, (0, verifier_len_total), &p);
                                bump(ch);
                            }
                            _ => {}
                        }
                    }
                    let msg = match combine_wire(&vdaf, &ctx.0, &(), &states[0], &shares) {
                        Ok(m) => m,
                        Err(f) if f.is_panic() => return Attempt::Panicked(f),
                        Err(f) => return Attempt::Rejected(f.describe()),
                    };
                    // phase 3: verifier message in transit
                    let mut msgs: Vec<Vec<u8>> = vec![msg.clone(); n];
                    for op in ops {
                        match op {
                            Op::ForeignMessage => {
                                if let Some(s2) = &sh2 {
                                    let inputs2: Vec<AggInput> = (0..n).map(|j| AggInput { agg_id: j, verify_key: key, ctx: ctx.0.clone(), nonce: nonce2, public_share: s2.public_share.clone(), input_share: s2.input_shares[j].clone() }).collect();
                                    let mut sh2s = vec![];
                                    let mut st2 = vec![];
                                    for a in &inputs2 {
                                        if let Ok(o) = init_wire(&vdaf, &(), a) {
                                            sh2s.push(o.verifier_share);
                                            st2.push(o.state);
                                        }
                                    }
                                    if sh2s.len() == n {
                                        if let Ok(m2) = combine_wire(&vdaf, &ctx.0, &(), &st2[0], &sh2s) {
                                            if m2 != msg {
                                                for q in msgs.iter_mut() {
                                                    *q = m2.clone();
                                                }
                                                bump(true);
                                            }
                                        }
                                    }
                                }
                            }
                            Op::FlipBit { msg: sel, .. } | Op::XorByte { msg: sel, .. } | Op::XorMulti { msg: sel, .. } | Op::AddElem { msg: sel, .. } | Op::AddElemAt { msg: sel, .. } | Op::AddElemPair { msg: sel, .. } | Op::Truncate { msg: sel, .. } | Op::Extend { msg: sel, .. } => match sel {
                                MsgSel::MessageAll => {
                                    let mut b = msgs[0].clone();
                                    let ch = mutate_bytes(&mut b, op, es, (0, 0), &p);
                                    if ch {
                                        for q in msgs.iter_mut() {
                                            *q = b.clone();
                                        }
                                    }
                                    bump(ch);
                                }
                                MsgSel::MessageOne(j) => {
                                    let j = *j as usize % n;
                                    let ch = mutate_bytes(&mut msgs[j], op, es, (0, 0), &p);
                                    bump(ch);
                                }
                                _ => {}
                            },
                            _ => {}
                        }
                    }
                    let mut outs = vec![];
                    for (j, st) in states.into_iter().enumerate() {
                        match next_wire(&vdaf, j, &ctx.0, &(), st, &msgs[j]) {
                            Ok(NextOut::Finish(b)) => outs.push(b),
                            Ok(NextOut::Continue(..)) => return Attempt::Rejected("unexpected extra round".into()),
                            Err(f) if f.is_panic() => return Attempt::Panicked(f),
                            Err(f) => return Attempt::Rejected(f.describe()),
                        }
                    }
                    Attempt::Completed(outs)
                };

                let first = attempt(*key_seed);
                let altered = really_altered.get();
                let weak = weak_only.get();
                let touched = input_touched.get();
                obs.label(format!("tamper:effective-alterations={}", altered.min(3)));
                if altered == 0 {
                    obs.label("tamper:no-effective-alteration");
                }
                match first {
                    Attempt::Panicked(f) => obs.fail(format!("tamper-{}-{}", f.stage(), panic_sig(&f.describe())), format!("processing a tampered report panicked: {}", f.describe())),
                    Attempt::Rejected(why) => {
                        obs.label("rejected");
                        let stage = why.split('[').next().unwrap_or("").to_string();
                        obs.label(format!("rejected-at:{stage}"));
                        if !stage.starts_with("decode") {
                            // the altered message still decoded: the protocol logic caught it
                            obs.nt();
                        }
                        if altered == 0 {
                            obs.fail("honest-report-rejected", format!("an unaltered honest report was rejected: {why}"));
                        }
                    }
                    Attempt::Completed(outs) => {
                        obs.label("completed");
                        let key: [u8; 32] = arr_from(*key_seed);
                        let hon = honest(key).ok();
                        let got = sum_outputs::<T::Field>(&outs, &p);
                        if altered == 0 {
                            if hon.as_ref() != Some(&outs) {
                                obs.fail("nondeterministic-honest", "harness: unaltered run differs from the honest run");
                            }
                        } else if altered == 1 && !weak {
                            // single alteration ⇒ must fail (re-test rule)
                            obs.nt();
                            let mut all = true;
                            for k in 1..=3u64 {
                                obs.label("soundness-retest");
                                if !matches!(attempt(key_seed.wrapping_mul(0x9E37).wrapping_add(k * 104729) | 2), Attempt::Completed(_)) {
                                    all = false;
                                    break;
                                }
                            }
                            if all {
                                obs.fail("single-alteration-accepted", format!("a report with a single effective alteration ({:?}) completed verification at every aggregator under 4 independent verification keys", ops));
                            } else {
                                obs.label("soundness-fluke");
                            }
                        } else {
                            // several (or order-only / own-copy) alterations: whenever all finish the
                            // outputs must be the truncation of a valid encoding
                            obs.nt();
                            match got {
                                Some(g) => {
                                    if !model_output_valid(&cfg.inst, &g) {
                                        obs.fail("completed-with-invalid-output", format!("all aggregators finished after alterations {:?} but the output shares sum to {g:?}, not the truncation of a valid encoding", ops));
                                    } else if !touched {
                                        if let Some(h) = hon {
                                            let hs = sum_outputs::<T::Field>(&h, &p);
                                            if hs.as_ref() != Some(&g) {
                                                obs.fail("completed-with-different-output", format!("no input share was altered, all finished, but outputs sum to {g:?} instead of the honest {hs:?}"));
                                            }
                                        }
                                    }
                                }
                                None => obs.fail("completed-with-malformed-output", "output shares are not field vectors of one length"),
                            }
                        }
                    }
                }
            }
        }
    }
}

/// Small configurations for the exhaustive position sweep.
pub fn sweep_cfgs(tier: Tier) -> Vec<VdafCfg> {
    let mk = |inst: Inst, n_agg: u8, n_proofs: u8, xof: XofKind| VdafCfg { alg_id: inst.default_alg_id(), inst, xof, n_agg, n_proofs };
    let mut v = vec![
        mk(Inst::Count { f: FieldKind::F64 }, 2, 1, XofKind::Turbo),
        mk(Inst::Sum { f: FieldKind::F64, max: U(100) }, 3, 1, XofKind::Turbo),
        mk(Inst::Average { f: FieldKind::F128, max: U(255) }, 2, 2, XofKind::Hmac),
        mk(Inst::SumVec { f: FieldKind::F128, max: U(7), len: 5, chunk: 4, mt: false }, 2, 1, XofKind::Turbo),
        mk(Inst::SumVec { f: FieldKind::F64, max: U(5), len: 3, chunk: 2, mt: false }, 3, 3, XofKind::Turbo),
        mk(Inst::Histogram { f: FieldKind::F128, len: 7, chunk: 3, mt: false }, 4, 1, XofKind::Turbo),
        mk(Inst::Multihot { f: FieldKind::F128, len: 6, max_weight: 3, chunk: 4, mt: false }, 2, 1, XofKind::Biased),
        mk(Inst::L1 { f: FieldKind::F128, max: U(9), len: 3, chunk: 5 }, 2, 1, XofKind::Turbo),
        // the last chunk holds only claimed-norm / claimed-weight digits
        mk(Inst::L1 { f: FieldKind::F128, max: U(7), len: 4, chunk: 4 }, 2, 1, XofKind::Turbo),
        mk(Inst::L1 { f: FieldKind::F64, max: U(1), len: 2, chunk: 2 }, 2, 1, XofKind::Turbo),
        mk(Inst::Multihot { f: FieldKind::F128, len: 6, max_weight: 3, chunk: 3, mt: false }, 2, 1, XofKind::Turbo),
    ];
    if tier == Tier::Thorough {
        for len in [1usize, 2, 8, 9, 16, 31] {
            for chunk in [1usize, 3, 4, 40] {
                v.push(mk(Inst::Histogram { f: FieldKind::F64, len, chunk, mt: false }, 2, 1, XofKind::Turbo));
                v.push(mk(Inst::SumVec { f: FieldKind::F128, max: U(3), len, chunk, mt: false }, 3, 2, XofKind::Turbo));
                v.push(mk(Inst::Multihot { f: FieldKind::F64, len, max_weight: 1 + len / 2, chunk, mt: false }, 2, 1, XofKind::Hmac));
                v.push(mk(Inst::L1 { f: FieldKind::F64, max: U(6), len, chunk }, 2, 1, XofKind::Turbo));
            }
        }
        for max in [1u128, 2, 3, 255, 256, 257, (1 << 32) - 1, 1 << 32] {
            v.push(mk(Inst::Sum { f: FieldKind::F64, max: U(max) }, 2, 1, XofKind::Turbo));
        }
    }
    v
}

impl Check for C02 {
    type Case = Case;
    const ID: &'static str = "C02";
    fn rule(&self) -> String {
        "(client) valid encoding + 1..3 edits (set/add/move/both/balanced — the last keeps the type's sum/weight/norm relation so that only the bit checks can refuse — at first/last/last-chunk/random positions with values 0,1,2,−1,−2,(p+1)/2,random) sharded by the REAL sharding code through a Type wrapper with identity encoding, verified by the real instance; oracle = independent validity predicate: invalid ⇒ rejected (3 fresh keys re-test), valid ⇒ accepted with outputs = truncation. (tamper) honest report + 1..3 wire operations (bit flip, byte xor, correlated multi-byte changes whose differences cancel under an XOR/sum/multiset fold, field-element +δ keeping the message decodable, truncate/extend, swap/drop/duplicate/replace shares, foreign verifier message) on public share, input shares, verifier shares, verifier message; single effective alteration ⇒ some aggregator fails; otherwise all-finish ⇒ outputs valid (and honest if no input share touched). Non-trivial = invalid or alternative-valid vector, or an alteration that survives decoding; distinct by case hash".into()
    }
    fn assumptions(&self) -> Vec<String> {
        vec!["soundness error of the FLP over Field64/Field128 (≤ 2^-50 per attempt); acceptance is only reported after 4 independent verification keys accept".into()]
    }
    fn strategy(&self, tier: Tier) -> BoxedStrategy<Case> {
        let mut lim = tier.pick(Limits::quick(), Limits::thorough());
        lim.max_input_len = tier.pick(400, 2000);
        lim.max_work = tier.pick(40_000, 200_000);
        case_strategy(lim)
    }
    fn num_cases(&self, tier: Tier) -> u64 {
        tier.pick(30_000, 300_000)
    }
    fn enumerate(&self, tier: Tier, shard: usize, nshards: usize, f: &mut dyn FnMut(Case) -> bool) {
        // every element position of the leader input share and of every verifier share, for a
        // fixed list of small configurations, altered by a non-zero delta
        let mut i = 0usize;
        for (ci, cfg) in sweep_cfgs(tier).into_iter().enumerate() {
            let n = cfg.n_agg as usize;
            let in_elems = cfg.inst.input_len() + crate::codec::p3_proof_len(&cfg.inst) * cfg.n_proofs as usize;
            let v_elems = crate::codec::p3_verifier_len(&cfg.inst) * cfg.n_proofs as usize;
            let meas = meas_from(&cfg.inst, 3 + ci as u8, 77 + ci as u64);
            let mut targets: Vec<(MsgSel, usize)> = vec![(MsgSel::Input(0), in_elems)];
            for j in 0..n {
                targets.push((MsgSel::VerifierShare(j as u8), v_elems));
            }
            // every pair of positions of the encoded vector, altered so that the type's linear
            // relation still holds (client-side: honest proof over the edited vector)
            if affine_weights(&cfg.inst).is_some() {
                let nin = cfg.inst.input_len();
                for a in 0..nin {
                    for b in 0..nin {
                        if a == b {
                            continue;
                        }
                        i += 1;
                        if i % nshards != shard {
                            continue;
                        }
                        let t = [ValSel::One, ValSel::MinusOne, ValSel::Two][(a + b) % 3];
                        let c = Case::Client { cfg: cfg.clone(), ctx: Hex(b"sweep".to_vec()), key_seed: 3000 + (a * nin + b) as u64, nonce_seed: 51 + ci as u64, rand_seed: 61 + ci as u64, base: meas.clone(), edits: vec![Edit::BalancedAt { i: a, j: b, t }] };
                        if !f(c) {
                            return;
                        }
                    }
                }
            }
            // every pair of elements of each aggregator's verifier share, altered by (δ, δ) and
            // (δ, −δ) as ONE alteration of that message
            if v_elems >= 2 && v_elems <= 40 {
                for j in 0..n {
                    for a in 0..v_elems {
                        for b in a + 1..v_elems {
                            for neg in [false, true] {
                                i += 1;
                                if i % nshards != shard {
                                    continue;
                                }
                                let c = Case::Tamper { cfg: cfg.clone(), ctx: Hex(b"sweep".to_vec()), key_seed: 5000 + (a * v_elems + b) as u64, nonce_seed: 52 + ci as u64, rand_seed: 62 + ci as u64, meas: meas.clone(), ops: vec![Op::AddElemPair { msg: MsgSel::VerifierShare(j as u8), a, b, delta: [ValSel::One, ValSel::Rand(17 + a as u64)][(a + b) % 2], neg }] };
                                if !f(c) {
                                    return;
                                }
                            }
                        }
                    }
                }
            }
            for (msg, count) in targets {
                for at in 0..count {
                    i += 1;
                    if i % nshards != shard {
                        continue;
                    }
                    let delta = [ValSel::One, ValSel::MinusOne, ValSel::Rand(at as u64 + 5)][at % 3];
                    let c = Case::Tamper { cfg: cfg.clone(), ctx: Hex(b"sweep".to_vec()), key_seed: 1000 + at as u64, nonce_seed: 50 + ci as u64, rand_seed: 60 + ci as u64, meas: meas.clone(), ops: vec![Op::AddElemAt { msg: msg.clone(), at, delta }] };
                    if !f(c) {
                        return;
                    }
                }
            }
        }
    }
    fn enumerated_space(&self, tier: Tier) -> Option<String> {
        Some(format!("{} fixed configurations × every field-element position of the leader input share (measurement and proof shares) and of every aggregator's verifier share, each altered by a non-zero delta, and every pair of elements of every verifier share altered by (δ, ±δ) as one alteration; for the types with a linear relation (histogram, multihot, L1-bound) every ordered pair of positions of the encoded vector altered so that the linear relation still holds, sharded with an honest proof", sweep_cfgs(tier).len()))
    }
    fn run(&self, case: &Case) -> Outcome {
        let mut obs = Obs::new();
        let cfg = match case {
            Case::Client { cfg, .. } | Case::Tamper { cfg, .. } => cfg,
        };
        obs.label(format!("type:{}", cfg.inst.name()));
        if cfg.n_agg >= 4 {
            obs.label("n_agg>=4");
        }
        if let Err(e) = with_vdaf(cfg, Run { case, obs: &mut obs }) {
            obs.fail("constructor-refused-admissible-parameters", format!("constructor refused {cfg:?}: {e}"));
        }
        obs.finish()
    }
}
