//! Selection of a (type, decoding parameter) from fuzzer-provided bytes, and the seed corpus.

use crate::codec::*;
use crate::p3::*;
use crate::util::U;
use std::sync::OnceLock;

/// The table the fuzz targets index into: the exhaustive-enumeration table of C08 plus larger
/// parameters.
pub fn table() -> &'static Vec<Spec> {
    static T: OnceLock<Vec<Spec>> = OnceLock::new();
    T.get_or_init(|| {
        let mut v = fixed_specs();
        let mk = |inst: Inst, n_agg: u8, n_proofs: u8| VdafCfg { alg_id: inst.default_alg_id(), inst, xof: XofKind::Turbo, n_agg, n_proofs };
        for c in [
            mk(Inst::SumVec { f: FieldKind::F128, max: U(255), len: 9, chunk: 7, mt: false }, 3, 1),
            mk(Inst::L1 { f: FieldKind::F128, max: U(7), len: 4, chunk: 3 }, 2, 1),
            mk(Inst::Histogram { f: FieldKind::F64, len: 20, chunk: 5, mt: false }, 5, 2),
            mk(Inst::Average { f: FieldKind::F128, max: U(1000) }, 2, 1),
        ] {
            v.push(Spec::P3Public(c.clone()));
            for agg in [0usize, 1, 2] {
                if agg < c.n_agg as usize {
                    v.push(Spec::P3Input(c.clone(), agg));
                    v.push(Spec::P3VerifierShare(c.clone(), agg));
                    v.push(Spec::P3State(c.clone(), agg));
                    v.push(Spec::P3Continuation(c.clone(), agg));
                }
            }
            v.push(Spec::P3Output(c.clone()));
        }
        for bits in [16usize, 33, 64, 65] {
            v.push(Spec::IdpfPublic { kind: IdpfKind::Poplar, bits });
            v.push(Spec::PopInput { bits, aes: false, agg: 0 });
            v.push(Spec::PopInput { bits, aes: true, agg: 1 });
            v.push(Spec::PopState { bits, agg: 0 });
            v.push(Spec::PopContinuation { bits, agg: 1 });
            v.push(Spec::PopFieldVecByParam { bits, level: bits - 1, n: 4 });
            v.push(Spec::PopFieldVecByParam { bits, level: 3, n: 5 });
        }
        for len in [15usize, 16, 100] {
            v.push(Spec::Prio2Input { len, agg: 0 });
            v.push(Spec::Prio2State { len, agg: 0 });
            v.push(Spec::Prio2Output { len });
        }
        v
    })
}

pub fn spec_from(a: u8, b: u8) -> &'static Spec {
    let t = table();
    &t[(u16::from_le_bytes([a, b]) as usize) % t.len()]
}

/// Seed corpus: for every table entry a canonical encoding and a few near-valid strings from the
/// C07 grammar, each prefixed with the two selector bytes.
pub fn seed_corpus() -> Vec<Vec<u8>> {
    let mut out = vec![];
    for (i, spec) in table().iter().enumerate() {
        let sel = (i as u16).to_le_bytes();
        for k in 0..4u64 {
            let b = crate::c07gram::build(spec, 1000 + k + i as u64 * 17, if k == 0 { 0 } else { 8 });
            let mut f = sel.to_vec();
            f.extend_from_slice(&b.bytes);
            out.push(f);
        }
    }
    out
}

/// The oracle shared by the fuzz targets: Err(description) on a C07/C08 violation.
pub fn fuzz_one(data: &[u8]) -> Result<(), String> {
    if data.len() < 2 {
        return Ok(());
    }
    let spec = spec_from(data[0], data[1]);
    let bytes = &data[2..];
    thread_local! {
        static CACHE: std::cell::RefCell<std::collections::HashMap<usize, Prepared>> = Default::default();
    }
    let idx = (u16::from_le_bytes([data[0], data[1]]) as usize) % table().len();
    CACHE.with(|c| {
        let mut c = c.borrow_mut();
        let prep = c.entry(idx).or_insert_with(|| prepare(spec).expect("table entries are constructible"));
        let rt = prep(bytes, Mode::Full);
        if let Some(p) = rt.panic {
            return Err(format!("{spec:?}: panic: {p}"));
        }
        if rt.accepted {
            match (&rt.reenc, &rt.reenc_err) {
                (Some(b), _) => {
                    if b != bytes {
                        return Err(format!("{spec:?}: accepted but re-encodes differently"));
                    }
                    if rt.enc_len != Some(b.len()) {
                        return Err(format!("{spec:?}: encoded_len {:?} != {}", rt.enc_len, b.len()));
                    }
                    if rt.roundtrip_equal == Some(false) {
                        return Err(format!("{spec:?}: decode(encode(v)) != v"));
                    }
                }
                (None, Some(e)) => return Err(format!("{spec:?}: decoded value refuses to encode: {e}")),
                _ => {}
            }
        }
        Ok(())
    })
}
