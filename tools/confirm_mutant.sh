#!/bin/bash
# tools/confirm_mutant.sh <slot> <dir-with-out> <N>
# Confirms a seeded change independently: (a) demo passes on the clean tree, (b) the existing suite
# passes with the patch, (c) the demo fails with the patch. Works in a scratch worktree only.
set -u
slot="$1"; dir="$2"; n="$3"
base=/tmp/pvslot/$slot
mkdir -p /tmp/pvslot
[ -d "$base/repo" ] || git -C /repo worktree add -q --detach "$base/repo" HEAD || exit 2
cd "$base/repo" || exit 2
git checkout -q --detach "$(git -C /repo rev-parse HEAD)"; git checkout -- .; git clean -fdq -e target
export CARGO_NET_OFFLINE=true
FEAT=experimental,multithreaded,test-util,verif-hooks
cp "$dir/mut${n}_demo.rs" tests/mut${n}_demo.rs
a=$(cargo test --offline --features $FEAT --test mut${n}_demo 2>&1 | grep -E "^test result" | tail -1)
git apply "$dir/mut${n}.patch" || { echo "CONFIRM $dir mut$n: patch does not apply"; exit 2; }
c=$(cargo test --offline --features $FEAT --test mut${n}_demo 2>&1 | grep -E "^test result|error(\[|:)" | tail -1)
rm -f tests/mut${n}_demo.rs
b=$(cargo test --workspace --no-fail-fast --offline 2>&1 | grep -E "^test result" | awk '{p+=$4; f+=$6} END {print "passed="p" failed="f}')
git checkout -- .; git clean -fdq -e target
echo "CONFIRM $(basename $dir) mut$n | clean-demo: $a | mutant-demo: $c | mutant-suite: $b"
