//! C16 — fallible public operations reject bad arguments with errors, never panics.

use crate::c03::Bits;
use crate::gen::*;
use crate::harness::*;
use crate::p3::*;
use crate::util::*;
use prio::codec::{Encode, ParameterizedDecode};
use prio::dp::distributions::{DiscreteGaussian, DiscreteLaplace, PureDpDiscreteLaplace, ZCdpDiscreteGaussian};
use prio::dp::{DifferentialPrivacyStrategy, PureDpBudget, Rational, ZCdpBudget};
use prio::field::{Field128, Field255, Field64, FieldPrio2};
#[allow(unused_imports)]
use prio::flp::Flp;
use prio::idpf::{Idpf, IdpfInput};
use prio::vdaf::poplar1::{Poplar1, Poplar1AggregationParam, Poplar1IdpfValue};
use prio::vdaf::prio2::Prio2;
use prio::vdaf::prio3::{Prio3, Prio3InputShare, Prio3VerifierMessage, Prio3VerifierShare, Prio3VerifyState};
use prio::vdaf::test_utils::TestVectorClient;
use prio::vdaf::xof::{Xof, XofTurboShake128};
use prio::vdaf::{Aggregator, AggregatorWithNoise, Client, Collector, Share};
use proptest::prelude::*;
use serde::{Deserialize, Serialize};

pub struct C16;

/// Extreme values of a usize argument.
pub fn ext_usize(sel: u8, rnd: u64) -> usize {
    const T: [usize; 24] = [0, 1, 2, 3, 7, 8, 9, 255, 256, 65535, 65536, 65537, 1 << 20, (u32::MAX - 1) as usize, u32::MAX as usize, u32::MAX as usize + 1, (1 << 63) - 1, 1 << 63, usize::MAX - 1, usize::MAX, usize::MAX / 2, usize::MAX / 2 + 1, usize::MAX / 3, 1 << 40];
    // powers of two ± 1 around the NTT capacity of the smallest field (Prio2: 2n ≤ 2^20)
    const T2: [usize; 6] = [(1 << 18) - 1, 1 << 18, (1 << 19) - 1, 1 << 19, (1 << 20) - 1, (1 << 20) + 1];
    match sel % 46 {
        s if (s as usize) < T.len() => T[s as usize],
        s @ 40..=45 => T2[s as usize - 40],
        24..=33 => 1 + (rnd % 64) as usize,
        34..=36 => (rnd % 5000) as usize,
        _ => rnd as usize,
    }
}

pub fn ext_u128(f: FieldKind, sel: u8, rnd: u128) -> u128 {
    let p = match f {
        FieldKind::F64 => P64 as u128,
        FieldKind::F128 => P128,
    };
    let cap = match f {
        FieldKind::F64 => u64::MAX as u128,
        FieldKind::F128 => u128::MAX,
    };
    let v = match sel % 16 {
        0 => 0,
        1 => 1,
        2 => 2,
        3 => 3,
        4 => p - 1,
        5 => p,
        6 => p + 1,
        7 => cap,
        8 => cap - 1,
        9 => 1u128 << (rnd % 64),
        10 => (1u128 << (rnd % 64)) - 1,
        11 => p - 2,
        12 => p / 2,
        _ => rnd,
    };
    v.min(cap)
}

#[derive(Clone, Debug, Serialize, Deserialize)]
pub enum P3Misuse {
    /// shard_with_random with the randomness length changed by delta
    RandLen(i8),
    /// verify_init with this aggregator id for share 0 / share 1
    AggId { share: u8, id_sel: u8, id_rnd: u64 },
    /// decoding / processing an input share under the other role
    RoleSwap,
    /// directly constructed leader share: lengths of measurement / proofs share changed, blind toggled
    BadLeaderShare { meas_delta: i8, proofs_delta: i8, toggle_blind: bool },
    /// directly constructed helper share with the blind toggled
    BadHelperShare,
    /// verifier_shares_to_message with this many shares (copies / fewer)
    ShareCount(u8),
    /// a verifier message / share / state decoded under another instance (with / without joint rand)
    CrossInstance { what: u8 },
    /// aggregate / unshard with shares of the wrong length
    BadAggregate,
    /// add_noise_to_agg_share with a share of the wrong length and odd budgets
    Noise { eps_n: u64, eps_d: u64, len_delta: i8 },
}

#[derive(Clone, Debug, Serialize, Deserialize)]
pub enum PopOp {
    Shard { input_len: usize },
    VerifyInitAggId { id_sel: u8, id_rnd: u64 },
    VerifyInitLevel { level: usize },
    DecodeInputShare,
    DecodePublicShare,
    SharesToMessage(u8),
    VerifyNextCross(u8, u8),
    UnshardMixed,
    AggregateInitLevel { level: usize },
}

#[derive(Clone, Debug, Serialize, Deserialize)]
pub enum Case {
    /// constructor with arbitrary parameters; a constructed instance is exercised end to end when affordable
    P3Ctor { cfg: VdafCfg },
    /// encode_measurement / shard with an arbitrary measurement (out of range, wrong length, …)
    P3Measurement { cfg: VdafCfg, meas: Meas },
    P3Misuse { cfg: VdafCfg, seed: u64, m: P3Misuse },
    Poplar { bits: usize, seed: u64, op: PopOp },
    Prio2 { len_sel: u8, len_rnd: u64, seed: u64, op: u8 },
    FlpDirect { inst: Inst, delta: i8 },
    IdpfGen { bits: usize, n_inner: usize, nonce_len: usize },
    Prefixes { lens: Vec<u32>, seed: u64 },
    Dp { op: u8, a: u64, b: u64, f: u32 },
}

const BUDGET_BYTES: u128 = 1 << 24; // 16 MiB per instance exercised

fn arb_meas(inst: &Inst, sel: u8, seed: u64) -> Meas {
    // arbitrary: in range (half), or a violation of range / length
    let base = meas_from(inst, sel, seed);
    if sel % 2 == 0 {
        return base;
    }
    let r = u128_from(seed, 9);
    match (inst, base) {
        (Inst::Count { .. }, m) => m,
        (Inst::Sum { f, max, .. }, _) | (Inst::Average { f, max, .. }, _) => Meas::Int(U(match sel % 5 {
            1 => max.0.saturating_add(1),
            3 => ext_u128(*f, (seed % 16) as u8, r),
            _ => max.0.saturating_add(r % 1000),
        })),
        (Inst::SumVec { f, max, len, .. }, Meas::Ints(mut v)) | (Inst::L1 { f, max, len, .. }, Meas::Ints(mut v)) => {
            match sel % 7 {
                1 => {
                    v.push(U(0));
                }
                3 => {
                    v.pop();
                }
                5 => {
                    if !v.is_empty() {
                        let i = (r as usize) % v.len();
                        v[i] = U(max.0.saturating_add(1));
                    }
                }
                6 => {
                    // every entry at the bound: each in range, the L1 norm far beyond it (and beyond
                    // the integer type when the bound is above half its width)
                    for x in v.iter_mut() {
                        *x = U(max.0);
                    }
                }
                4 => {
                    // two entries at the bound
                    if !v.is_empty() {
                        let i = (r as usize) % v.len();
                        let j = ((r >> 32) as usize) % v.len();
                        v[i] = U(max.0);
                        v[j] = U(max.0);
                    }
                }
                _ => {
                    if !v.is_empty() {
                        let i = (r as usize) % v.len();
                        v[i] = U(ext_u128(*f, (seed % 16) as u8, r));
                    }
                    let _ = len;
                }
            }
            Meas::Ints(v)
        }
        (Inst::Histogram { len, .. }, _) => Meas::Index(match sel % 9 {
            1 => *len,
            3 => len + 1,
            5 => usize::MAX,
            7 => ext_usize((seed % 40) as u8, seed),
            _ => len.saturating_mul(2),
        }),
        (Inst::Multihot { len, max_weight, .. }, Meas::Bools(mut v)) => {
            match sel % 7 {
                1 => v.push(true),
                3 => {
                    v.pop();
                }
                5 => v = vec![],
                _ => {
                    // weight above the bound
                    for b in v.iter_mut().take(max_weight + 1) {
                        *b = true;
                    }
                    let _ = len;
                }
            }
            Meas::Bools(v)
        }
        (_, m) => m,
    }
}

/// Documented domain of the constructors.
fn ctor_expectation(cfg: &VdafCfg) -> Option<bool> {
    // Some(true) = must be accepted, Some(false) = must be refused, None = either (no panic)
    let p = match cfg.inst.field() {
        FieldKind::F64 => P64 as u128,
        FieldKind::F128 => P128,
    };
    if cfg.n_agg == 0 || cfg.n_agg > 254 || cfg.n_proofs == 0 {
        return Some(false);
    }
    let bits_of = |m: u128| (128 - m.leading_zeros()) as usize;
    // parameters whose derived proof length is astronomically large are not a documented domain:
    // the constructor may accept or refuse them (it must not panic or hand out a broken instance)
    let derived_ok = |input_len: u128, chunk: usize| -> bool {
        let calls = input_len.div_ceil(chunk.max(1) as u128);
        let p = (calls + 1).next_power_of_two();
        2 * chunk as u128 + 2 * p + 2 < (1u128 << 56)
    };
    match &cfg.inst {
        Inst::Count { .. } => Some(true),
        Inst::Sum { max, .. } | Inst::Average { max, .. } => Some(max.0 >= 1 && max.0 < p),
        Inst::SumVec { max, len, chunk, .. } => {
            if max.0 == 0 || max.0 >= p || *len == 0 || *chunk == 0 {
                return Some(false);
            }
            if bits_of(max.0).checked_mul(*len).is_none() {
                return Some(false);
            }
            if !derived_ok(bits_of(max.0) as u128 * *len as u128, *chunk) {
                return None;
            }
            Some(true)
        }
        Inst::Histogram { len, chunk, .. } => {
            if *len == 0 || *len >= u32::MAX as usize || *chunk == 0 {
                return Some(false);
            }
            if !derived_ok(*len as u128, *chunk) {
                return None;
            }
            Some(true)
        }
        Inst::Multihot { len, max_weight, chunk, .. } => {
            if *len == 0 || *len >= u32::MAX as usize || *chunk == 0 || *max_weight == 0 {
                return Some(false);
            }
            if (*max_weight as u128) >= p {
                return Some(false);
            }
            if !derived_ok(*len as u128 + 64, *chunk) || *max_weight > *len {
                return None;
            }
            Some(true)
        }
        Inst::L1 { max, len, chunk, .. } => {
            if max.0 == 0 || max.0 >= p || *len == 0 || *chunk == 0 {
                return Some(false);
            }
            match len.checked_add(1).and_then(|l| l.checked_mul(bits_of(max.0))) {
                None => return Some(false),
                Some(_) => {}
            }
            if !derived_ok(bits_of(max.0) as u128 * (*len as u128 + 1), *chunk) {
                return None;
            }
            Some(true)
        }
    }
}

fn exercise_cost(cfg: &VdafCfg) -> Option<u128> {
    // bytes of the proof and measurement vectors, all aggregators, with checked arithmetic
    let il = match &cfg.inst {
        Inst::Count { .. } => 1u128,
        Inst::Sum { max, .. } | Inst::Average { max, .. } => (128 - max.0.leading_zeros()) as u128,
        Inst::SumVec { max, len, .. } => (128 - max.0.leading_zeros()) as u128 * *len as u128,
        Inst::Histogram { len, .. } => *len as u128,
        Inst::Multihot { len, max_weight, .. } => *len as u128 + (usize::BITS - max_weight.leading_zeros()) as u128,
        Inst::L1 { max, len, .. } => (128 - max.0.leading_zeros()) as u128 * (*len as u128 + 1),
    };
    let chunk = cfg.inst.chunk().unwrap_or(1) as u128;
    let calls = il.div_ceil(chunk.max(1));
    let proof = 2 * chunk + 4 * calls.next_power_of_two() + 4;
    let total = (il + proof * cfg.n_proofs as u128) * 16 * (cfg.n_agg as u128 + 2) * 4;
    Some(total)
}

struct CtorRun<'a> {
    cfg: &'a VdafCfg,
    obs: &'a mut Obs,
}

impl<'a> VdafVisitor for CtorRun<'a> {
    type Out = ();
    fn visit<T, P>(self, vdaf: Prio3<T, P, 32>, _typ: T)
    where
        T: TypeBridge + 'static,
        T::Field: FieldBig,
        P: Xof<32> + 'static,
    {
        let obs = self.obs;
        // the cheap accessors of a constructed instance must work (an instance on which they
        // overflow is unusable)
        match guard(|| (vdaf.output_len(), vdaf.verifier_len())) {
            Ok(_) => {}
            Err(p) => {
                obs.fail(format!("ctor-unusable-instance-{}", panic_sig(&p)), format!("the constructor accepted {:?} but the instance's length accessors panic: {p}", self.cfg));
                return;
            }
        }
        match exercise_cost(self.cfg) {
            Some(c) if c <= BUDGET_BYTES => {
                obs.label("ctor:constructed-and-exercised");
                // one honest report end to end
                let meas = meas_from(&self.cfg.inst, 6, 1234);
                let case = crate::c01::Case { cfg: self.cfg.clone(), ctx: Hex(b"c16".to_vec()), key_seed: 5, reports: vec![crate::c01::Report { meas, nonce_seed: 6, rand_seed: 7 }] };
                let out = crate::c01::C01.run(&case);
                if let Verdict::Violation { sig, what } = out.verdict {
                    // constructor refusal cannot happen here (we are inside the visitor)
                    obs.fail(format!("ctor-valid-extreme-does-not-work-{sig}"), format!("the constructor accepted {:?} but an honest execution fails: {what}", self.cfg));
                }
            }
            _ => obs.label("ctor:constructed-not-exercised(memory-budget)"),
        }
    }
}

struct MeasRun<'a> {
    cfg: &'a VdafCfg,
    meas: &'a Meas,
    obs: &'a mut Obs,
}

fn meas_compatible(inst: &Inst, m: &Meas) -> bool {
    matches!((inst, m), (Inst::Count { .. }, Meas::Bool(_)) | (Inst::Sum { .. }, Meas::Int(_)) | (Inst::Average { .. }, Meas::Int(_)) | (Inst::SumVec { .. }, Meas::Ints(_)) | (Inst::L1 { .. }, Meas::Ints(_)) | (Inst::Histogram { .. }, Meas::Index(_)) | (Inst::Multihot { .. }, Meas::Bools(_)))
}

fn meas_fits_api(inst: &Inst, m: &Meas) -> bool {
    // values must be representable in the API's integer type
    let cap = match inst.field() {
        FieldKind::F64 => u64::MAX as u128,
        FieldKind::F128 => u128::MAX,
    };
    match m {
        Meas::Int(v) => v.0 <= cap,
        Meas::Ints(v) => v.iter().all(|x| x.0 <= cap),
        _ => true,
    }
}

impl<'a> VdafVisitor for MeasRun<'a> {
    type Out = ();
    fn visit<T, P>(self, vdaf: Prio3<T, P, 32>, typ: T)
    where
        T: TypeBridge + 'static,
        T::Field: FieldBig,
        P: Xof<32> + 'static,
    {
        let obs = self.obs;
        let want_ok = model_encode(&self.cfg.inst, self.meas).is_some();
        obs.label(if want_ok { "measurement:in-range" } else { "measurement:out-of-domain" });
        if !want_ok {
            obs.nt();
        }
        let m = T::to_meas(self.meas);
        let enc = guard(|| typ.encode_measurement(&m));
        match enc {
            Err(p) => {
                obs.fail(format!("encode-measurement-{}", panic_sig(&p)), format!("{:?}: encode_measurement({:?}) panicked: {p}", self.cfg.inst, self.meas));
                return;
            }
            Ok(r) => {
                if r.is_ok() != want_ok {
                    obs.fail(if want_ok { "encode-measurement-refuses-valid" } else { "encode-measurement-accepts-invalid" }, format!("{:?}: encode_measurement({:?}) returned {}", self.cfg.inst, self.meas, if r.is_ok() { "Ok" } else { "Err" }));
                    return;
                }
            }
        }
        let nonce = [7u8; 16];
        let rand = vec![9u8; self.cfg.rand_len()];
        match guard(|| vdaf.shard_with_random(b"ctx", &m, &nonce, &rand)) {
            Err(p) => obs.fail(format!("shard-{}", panic_sig(&p)), format!("{:?}: shard({:?}) panicked: {p}", self.cfg.inst, self.meas)),
            Ok(r) => {
                if r.is_ok() != want_ok {
                    obs.fail(if want_ok { "shard-refuses-valid" } else { "shard-accepts-invalid" }, format!("{:?}: shard({:?}) returned {}", self.cfg.inst, self.meas, if r.is_ok() { "Ok" } else { "Err" }));
                }
            }
        }
        // the OS-randomised entry point as well
        if let Err(p) = guard(|| vdaf.shard(b"ctx", &m, &nonce)) {
            obs.fail(format!("shard-{}", panic_sig(&p)), format!("{:?}: Client::shard({:?}) panicked: {p}", self.cfg.inst, self.meas));
        }
    }
}

struct MisuseRun<'a> {
    cfg: &'a VdafCfg,
    seed: u64,
    m: &'a P3Misuse,
    obs: &'a mut Obs,
}

/// must be Err (not Ok, not a panic)
macro_rules! must_err {
    ($obs:expr, $sig:expr, $what:expr, $e:expr) => {
        match guard(|| $e) {
            Ok(Err(_)) => $obs.label(format!("{}:err", $sig)),
            Ok(Ok(_)) => {
                $obs.fail(format!("{}-accepted", $sig), format!("{} was accepted", $what));
            }
            Err(p) => {
                $obs.fail(format!("{}-{}", $sig, panic_sig(&p)), format!("{} panicked: {p}", $what));
            }
        }
    };
}

/// may be Ok or Err, never a panic
macro_rules! no_panic {
    ($obs:expr, $sig:expr, $what:expr, $e:expr) => {
        match guard(|| $e) {
            Ok(r) => $obs.label(format!("{}:{}", $sig, if r.is_ok() { "ok" } else { "err" })),
            Err(p) => {
                $obs.fail(format!("{}-{}", $sig, panic_sig(&p)), format!("{} panicked: {p}", $what));
            }
        }
    };
}

impl<'a> VdafVisitor for MisuseRun<'a> {
    type Out = ();
    fn visit<T, P>(self, vdaf: Prio3<T, P, 32>, typ: T)
    where
        T: TypeBridge + 'static,
        T::Field: FieldBig,
        P: Xof<32> + 'static,
    {
        let obs = self.obs;
        let cfg = self.cfg;
        let n = cfg.n_agg as usize;
        let meas = T::to_meas(&meas_from(&cfg.inst, 6, self.seed));
        let nonce: [u8; 16] = arr_from(self.seed ^ 3);
        let key: [u8; 32] = arr_from(self.seed ^ 5);
        let rand = bytes_from(self.seed | 2, cfg.rand_len());
        obs.nt();
        let sharded = vdaf.shard_with_random(b"ctx", &meas, &nonce, &rand);
        let (ps, shares) = match sharded {
            Ok(x) => x,
            Err(e) => {
                obs.fail("honest-shard", format!("honest sharding failed: {e}"));
                return;
            }
        };
        let jr = cfg.inst.has_joint_rand();
        match self.m {
            P3Misuse::RandLen(d) => {
                let want = cfg.rand_len() as i64 + *d as i64;
                if *d != 0 && want >= 0 {
                    let r = vec![1u8; want as usize];
                    must_err!(obs, "shard-with-random-wrong-length", format!("shard_with_random with {} bytes of randomness (needs {})", want, cfg.rand_len()), vdaf.shard_with_random(b"ctx", &meas, &nonce, &r));
                }
            }
            P3Misuse::AggId { share, id_sel, id_rnd } => {
                let id = match id_sel % 6 {
                    0 => n,
                    1 => n + 1,
                    2 => 255,
                    3 => 256,
                    4 => usize::MAX,
                    _ => ext_usize(*id_sel, *id_rnd),
                };
                if id >= n {
                    let s = &shares[*share as usize % n];
                    must_err!(obs, "verify-init-agg-id-out-of-range", format!("verify_init with aggregator id {id} of {n}"), vdaf.verify_init(&key, b"ctx", id, &(), &nonce, &ps, s));
                    let b = s.get_encoded().unwrap();
                    must_err!(obs, "decode-input-share-agg-id-out-of-range", format!("decoding an input share for aggregator id {id} of {n}"), Prio3InputShare::<T::Field, 32>::get_decoded_with_param(&(&vdaf, id), &b));
                    must_err!(obs, "decode-state-agg-id-out-of-range", format!("decoding a verify state for aggregator id {id} of {n}"), Prio3VerifyState::<T::Field, 32>::get_decoded_with_param(&(&vdaf, id), &b));
                }
            }
            P3Misuse::RoleSwap => {
                // the leader's share processed under a helper id and vice versa: Err or a failed
                // verification later, never a panic
                no_panic!(obs, "verify-init-leader-share-as-helper", "verify_init(leader share, agg id 1)", vdaf.verify_init(&key, b"ctx", 1, &(), &nonce, &ps, &shares[0]));
                no_panic!(obs, "verify-init-helper-share-as-leader", "verify_init(helper share, agg id 0)", vdaf.verify_init(&key, b"ctx", 0, &(), &nonce, &ps, &shares[1]));
            }
            P3Misuse::BadLeaderShare { meas_delta, proofs_delta, toggle_blind } => {
                let il = typ.input_len() as i64;
                let pl = (typ.proof_len() * cfg.n_proofs as usize) as i64;
                let ml = (il + *meas_delta as i64).max(0) as usize;
                let prl = (pl + *proofs_delta as i64).max(0) as usize;
                let blind_present = jr ^ *toggle_blind;
                let share = Prio3InputShare::<T::Field, 32>::Leader { measurement_share: vec![T::Field::from_u128(1); ml], proofs_share: vec![T::Field::from_u128(2); prl], joint_rand_blind: if blind_present { Some(seed_from(&[3u8; 32])) } else { None } };
                // a spurious blind (type without joint randomness) is ignored: only a missing one is malformed
                let malformed = ml as i64 != il || prl as i64 != pl || (jr && !blind_present);
                if malformed {
                    must_err!(obs, "verify-init-malformed-leader-share", format!("verify_init with a leader share of {ml}/{prl} elements (expected {il}/{pl}), blind present = {blind_present} (type needs one = {jr})"), vdaf.verify_init(&key, b"ctx", 0, &(), &nonce, &ps, &share));
                } else {
                    no_panic!(obs, "verify-init-wellformed-garbage-leader-share", "verify_init with a well-formed but arbitrary leader share", vdaf.verify_init(&key, b"ctx", 0, &(), &nonce, &ps, &share));
                }
                // a share of the leader's form (whatever else it carries, e.g. an unneeded blind)
                // is of the wrong role under every helper identifier
                for j in 1..n {
                    must_err!(obs, "verify-init-leader-form-share-under-helper-id", format!("verify_init with a leader-form share (blind present = {blind_present}, type needs one = {jr}) under aggregator id {j}"), vdaf.verify_init(&key, b"ctx", j, &(), &nonce, &ps, &share));
                }
            }
            P3Misuse::BadHelperShare => {
                let share = Prio3InputShare::<T::Field, 32>::Helper { meas_and_proofs_share: seed_from(&[4u8; 32]), joint_rand_blind: if jr { None } else { Some(seed_from(&[5u8; 32])) } };
                if jr {
                    must_err!(obs, "verify-init-helper-share-without-blind", "verify_init with a helper share lacking the joint-randomness blind", vdaf.verify_init(&key, b"ctx", 1, &(), &nonce, &ps, &share));
                } else {
                    no_panic!(obs, "verify-init-helper-share-with-spurious-blind", "verify_init with a helper share carrying an unneeded blind", vdaf.verify_init(&key, b"ctx", 1, &(), &nonce, &ps, &share));
                }
                must_err!(obs, "verify-init-helper-form-share-under-leader-id", "verify_init with a helper-form share under aggregator id 0", vdaf.verify_init(&key, b"ctx", 0, &(), &nonce, &ps, &share));
            }
            P3Misuse::ShareCount(k) => {
                let mut vs = vec![];
                for j in 0..n {
                    match vdaf.verify_init(&key, b"ctx", j, &(), &nonce, &ps, &shares[j]) {
                        Ok((_, s)) => vs.push(s),
                        Err(e) => {
                            obs.fail("honest-verify-init", format!("honest verify_init failed: {e}"));
                            return;
                        }
                    }
                }
                // counts that are wrong by one, by a factor, and by a multiple of 256 (a share
                // counter narrower than usize must not wrap back onto the right count)
                let count = match k % 10 {
                    0 => 0,
                    1 => n - 1,
                    2 => n + 1,
                    3 => 2 * n,
                    4 => 255,
                    5 => 256,
                    6 => 256 + n,
                    7 => 512 + n,
                    // (a 16-bit wrap only where the shares are small: 65 538 copies of them)
                    8 if vs.first().and_then(|v| v.get_encoded().ok()).map(|b| b.len() <= 64).unwrap_or(false) => 65536 + n,
                    8 => 768 + n,
                    _ => 1,
                };
                if count != n {
                    let list: Vec<Prio3VerifierShare<T::Field, 32>> = (0..count).map(|i| vs[i % n].clone()).collect();
                    must_err!(obs, "verifier-shares-to-message-wrong-count", format!("verifier_shares_to_message with {count} shares for {n} aggregators"), vdaf.verifier_shares_to_message(b"ctx", &(), list));
                }
            }
            P3Misuse::CrossInstance { what } => {
                // objects of the shared concrete types decoded under an instance with the opposite
                // joint-randomness setting
                let other_cfg = VdafCfg { inst: if jr { Inst::Count { f: cfg.inst.field() } } else { Inst::Histogram { f: cfg.inst.field(), len: 3, chunk: 2, mt: false } }, xof: cfg.xof, n_agg: cfg.n_agg, n_proofs: 1, alg_id: 1 };
                let vl = typ.verifier_len() * cfg.n_proofs as usize;
                let es = cfg.inst.field().size();
                // honest states of this instance
                let mut states = vec![];
                let mut vshares = vec![];
                for j in 0..n {
                    if let Ok((st, s)) = vdaf.verify_init(&key, b"ctx", j, &(), &nonce, &ps, &shares[j]) {
                        states.push(st);
                        vshares.push(s);
                    }
                }
                if states.len() != n {
                    obs.fail("honest-verify-init", "honest verify_init failed");
                    return;
                }
                // a state of the other instance as decoding parameter
                struct Other<F> {
                    st_bytes: Vec<u8>,
                    _f: std::marker::PhantomData<F>,
                }
                let _ = Other::<T::Field> { st_bytes: vec![], _f: std::marker::PhantomData };
                let other_state_bytes = crate::codec::p3_state_bytes(&other_cfg, 1);
                // build the foreign state through the other instance's decoder
                struct St<'b, F: FieldBig> {
                    bytes: &'b [u8],
                    out: &'b mut Option<Prio3VerifyState<F, 32>>,
                }
                impl<'b, F: FieldBig + prio::field::NttFriendlyFieldElement> VdafVisitor for St<'b, F> {
                    type Out = ();
                    fn visit<T2, P2>(self, v2: Prio3<T2, P2, 32>, _t: T2)
                    where
                        T2: TypeBridge + 'static,
                        T2::Field: FieldBig,
                        P2: Xof<32> + 'static,
                    {
                        // only same-field instances share the state type
                        let any: &dyn std::any::Any = &Prio3VerifyState::<T2::Field, 32>::get_decoded_with_param(&(&v2, 1usize), self.bytes).ok();
                        if let Some(Some(s)) = any.downcast_ref::<Option<Prio3VerifyState<F, 32>>>() {
                            *self.out = Some(s.clone());
                        }
                    }
                }
                let mut foreign: Option<Prio3VerifyState<T::Field, 32>> = None;
                let _ = with_vdaf(&other_cfg, St::<T::Field> { bytes: &other_state_bytes, out: &mut foreign });
                let Some(fst) = foreign else {
                    obs.label("cross-instance:no-foreign-state");
                    return;
                };
                match what % 3 {
                    0 => {
                        // a verifier message decoded under the foreign state (seed present iff the
                        // OTHER instance has joint randomness), fed to this instance's verify_next
                        let bytes = if jr { vec![] } else { vec![7u8; 32] };
                        if let Ok(msg) = Prio3VerifierMessage::<32>::get_decoded_with_param(&fst, &bytes) {
                            if !jr {
                                // a spurious seed is simply not looked at: only "no panic" is owed
                                no_panic!(obs, "verify-next-foreign-message-spurious-seed", "verify_next with a verifier message carrying an unneeded seed", vdaf.verify_next(b"ctx", states[0].clone(), msg).map(|_| ()));
                            } else
                            { must_err!(obs, "verify-next-foreign-message", format!("verify_next with a verifier message whose joint-randomness seed is {} while the type {}", if jr { "absent" } else { "present" }, if jr { "needs one" } else { "has none" }), vdaf.verify_next(b"ctx", states[0].clone(), msg).map(|_| ())); }
                        }
                    }
                    1 => {
                        // a verifier share of the right verifier length but without / with a spurious part
                        let mut bytes = vec![0u8; vl * es];
                        if !jr {
                            bytes.extend_from_slice(&[1u8; 32]);
                        }
                        // decode under a foreign state with the same verifier length is not
                        // available; use this instance's shares but replace one by a re-decoded
                        // variant when shapes allow
                        let _ = bytes;
                        let mut list = vshares.clone();
                        list.swap(0, n - 1);
                        no_panic!(obs, "verifier-shares-to-message-permuted", "verifier_shares_to_message with permuted shares", vdaf.verifier_shares_to_message(b"ctx", &(), list));
                    }
                    _ => {
                        // this instance's message handed to a foreign state
                        if let Ok(msg) = vdaf.verifier_shares_to_message(b"ctx", &(), vshares.clone()) {
                            if !jr {
                                no_panic!(obs, "verify-next-foreign-state-spurious-seed", "verify_next with a state of another instance carrying an unneeded seed", vdaf.verify_next(b"ctx", fst.clone(), msg).map(|_| ()));
                            } else
                            { must_err!(obs, "verify-next-foreign-state", "verify_next with a state of another instance (opposite joint-randomness setting)", vdaf.verify_next(b"ctx", fst.clone(), msg).map(|_| ())); }
                        }
                    }
                }
            }
            P3Misuse::BadAggregate => {
                use prio::vdaf::{AggregateShare, OutputShare};
                let ol = typ.output_len();
                let long = OutputShare::from(vec![T::Field::from_u128(1); ol + 1]);
                must_err!(obs, "aggregate-wrong-length-share", "aggregate with an output share of the wrong length", vdaf.aggregate(&(), vec![long]));
                let short = AggregateShare::from(vec![T::Field::from_u128(1); ol.saturating_sub(1)]);
                must_err!(obs, "unshard-wrong-length-share", "unshard with an aggregate share of the wrong length", vdaf.unshard(&(), vec![short], 1));
                no_panic!(obs, "unshard-no-shares", "unshard with no aggregate shares", vdaf.unshard(&(), Vec::<AggregateShare<T::Field>>::new(), 0));
                must_err!(obs, "decode-result-wrong-length", "decode_result with a vector of the wrong length", typ.decode_result(&vec![T::Field::from_u128(1); ol + 1], 1));
            }
            P3Misuse::Noise { .. } => {}
        }
    }
}

fn poplar_ops(bits: usize, seed: u64, op: &PopOp, obs: &mut Obs) {
    let vdaf = Poplar1::<XofTurboShake128, 32>::new(bits);
    let key: [u8; 32] = arr_from(seed ^ 5);
    let nonce: [u8; 16] = arr_from(seed ^ 3);
    let rand = bytes_from(seed | 2, 32 + 96);
    obs.nt();
    obs.label(format!("poplar:bits={}", bits.min(3)));
    match op {
        PopOp::Shard { input_len } => {
            let input = Bits::from_seed(seed, *input_len).idpf();
            if *input_len != bits || bits == 0 {
                must_err!(obs, "poplar-shard-bad-input", format!("Poplar1({bits}).shard with an input of {input_len} bits"), vdaf.shard_with_random(b"ctx", &input, &nonce, &rand));
                must_err!(obs, "poplar-shard-bad-input", format!("Poplar1({bits}).shard (OS randomness) with an input of {input_len} bits"), vdaf.shard(b"ctx", &input, &nonce));
            } else {
                no_panic!(obs, "poplar-shard", "Poplar1 shard", vdaf.shard_with_random(b"ctx", &input, &nonce, &rand));
            }
        }
        _ if bits == 0 => {
            // decoding anything for a zero-bit instance must fail cleanly
            no_panic!(obs, "poplar0-decode-input-share", "decoding an input share for Poplar1(0)", prio::vdaf::poplar1::Poplar1InputShare::<32>::get_decoded_with_param(&(&vdaf, 0usize), &[0u8; 112]));
            no_panic!(obs, "poplar0-decode-public-share", "decoding a public share for Poplar1(0)", prio::vdaf::poplar1::Poplar1PublicShare::get_decoded_with_param(&vdaf, &[0u8; 40]));
        }
        _ => {
            let input = Bits::from_seed(seed, bits);
            let (ps, shares) = match vdaf.shard_with_random(b"ctx", &input.idpf(), &nonce, &rand) {
                Ok(x) => x,
                Err(e) => {
                    obs.fail("honest-shard", format!("honest Poplar1 sharding failed: {e}"));
                    return;
                }
            };
            let param = |level: usize| Poplar1AggregationParam::try_from_prefixes(vec![Bits::from_seed(seed ^ 9, level + 1).idpf()]);
            match op {
                PopOp::VerifyInitAggId { id_sel, id_rnd } => {
                    let id = match id_sel % 4 {
                        0 => 2,
                        1 => 3,
                        2 => usize::MAX,
                        _ => 2 + ext_usize(*id_sel, *id_rnd) % (usize::MAX - 2),
                    };
                    if let Ok(ap) = param(0) {
                        must_err!(obs, "poplar-verify-init-agg-id", format!("Poplar1 verify_init with aggregator id {id}"), vdaf.verify_init(&key, b"ctx", id, &ap, &nonce, &ps, &shares[0]));
                    }
                }
                PopOp::VerifyInitLevel { level } => {
                    if let Ok(ap) = param(*level) {
                        if *level >= bits {
                            must_err!(obs, "poplar-verify-init-level-beyond-bits", format!("Poplar1({bits}) verify_init with a parameter at level {level}"), vdaf.verify_init(&key, b"ctx", 0, &ap, &nonce, &ps, &shares[0]));
                        } else {
                            no_panic!(obs, "poplar-verify-init", "Poplar1 verify_init", vdaf.verify_init(&key, b"ctx", 1, &ap, &nonce, &ps, &shares[1]));
                        }
                    }
                }
                PopOp::DecodeInputShare | PopOp::DecodePublicShare => {}
                PopOp::SharesToMessage(k) => {
                    if let Ok(ap) = param(0) {
                        let mut vs = vec![];
                        for j in 0..2 {
                            if let Ok((_, s)) = vdaf.verify_init(&key, b"ctx", j, &ap, &nonce, &ps, &shares[j]) {
                                vs.push(s);
                            }
                        }
                        if vs.len() == 2 {
                            let list = match k % 5 {
                                0 => vec![],
                                1 => vec![vs[0].clone()],
                                2 => vec![vs[0].clone(), vs[1].clone(), vs[0].clone()],
                                4 => (0..258).map(|i| vs[i % 2].clone()).collect(),
                                _ => {
                                    // mixed kinds: inner with leaf
                                    let leaf = prio::vdaf::poplar1::Poplar1FieldVec::Leaf(vec![Field255::from_u128(1); 3]);
                                    vec![vs[0].clone(), leaf]
                                }
                            };
                            if bits > 1 || k % 5 != 3 {
                                must_err!(obs, "poplar-shares-to-message-bad-list", format!("Poplar1 verifier_shares_to_message with a malformed share list (variant {})", k % 5), vdaf.verifier_shares_to_message(b"ctx", &ap, list));
                            }
                        }
                    }
                }
                PopOp::VerifyNextCross(a, b) => {
                    // every state variant × message variant, built through the decoders
                    use crate::codec::{pop_state, PopStateKind};
                    let kinds = [PopStateKind::InnerR1, PopStateKind::InnerR2, PopStateKind::LeafR1, PopStateKind::LeafR2];
                    let sk = kinds[*a as usize % 4];
                    let mk = kinds[*b as usize % 4];
                    let st = pop_state(sk);
                    let mst = pop_state(mk);
                    let mbytes: Vec<u8> = match mk {
                        PopStateKind::InnerR1 => vec![0; 24],
                        PopStateKind::LeafR1 => vec![0; 96],
                        _ => vec![],
                    };
                    if let Ok(msg) = prio::vdaf::poplar1::Poplar1VerifierMessage::get_decoded_with_param(&mst, &mbytes) {
                        // both round-two states take the same (empty) "done" message
                        let r2 = |k: PopStateKind| matches!(k, PopStateKind::InnerR2 | PopStateKind::LeafR2);
                        let compatible = sk == mk || (r2(sk) && r2(mk));
                        if compatible {
                            no_panic!(obs, "poplar-verify-next", "Poplar1 verify_next with matching state and message", vdaf.verify_next(b"ctx", st, msg).map(|_| ()));
                        } else {
                            must_err!(obs, "poplar-verify-next-mismatched-variants", format!("Poplar1 verify_next with state {sk:?} and a message for {mk:?}"), vdaf.verify_next(b"ctx", st, msg).map(|_| ()));
                        }
                    }
                }
                PopOp::UnshardMixed => {
                    use prio::vdaf::poplar1::Poplar1FieldVec as V;
                    if let Ok(ap) = param(0) {
                        let leaf_level = bits == 1;
                        let wrong = if leaf_level { V::Inner(vec![Field64::from_u128(1)]) } else { V::Leaf(vec![Field255::from_u128(1)]) };
                        must_err!(obs, "poplar-unshard-wrong-kind", "Poplar1 unshard with an aggregate share of the other level kind", vdaf.unshard(&ap, vec![wrong.clone()], 1));
                        must_err!(obs, "poplar-aggregate-wrong-kind", "Poplar1 aggregate with an output share of the other level kind", vdaf.aggregate(&ap, vec![wrong]));
                        let long = if leaf_level { V::Leaf(vec![Field255::from_u128(1); 2]) } else { V::Inner(vec![Field64::from_u128(1); 2]) };
                        must_err!(obs, "poplar-unshard-wrong-length", "Poplar1 unshard with an aggregate share of the wrong length", vdaf.unshard(&ap, vec![long], 1));
                        // a leaf count that does not fit u64
                        if leaf_level {
                            let big = V::Leaf(vec![Field255::from_big(&(num_bigint::BigUint::from(1u8) << 200))]);
                            must_err!(obs, "poplar-unshard-count-overflow", "Poplar1 unshard with a leaf count above 2^64", vdaf.unshard(&ap, vec![big], 1));
                        }
                    }
                }
                PopOp::AggregateInitLevel { level } => {
                    if let Ok(ap) = param(*level) {
                        match guard(|| vdaf.aggregate_init(&ap)) {
                            Ok(_) => {}
                            Err(p) => obs.fail(format!("poplar-aggregate-init-{}", panic_sig(&p)), format!("aggregate_init panicked: {p}")),
                        }
                    }
                }
                PopOp::Shard { .. } => {}
            }
        }
    }
}

fn prio2_ops(len: usize, seed: u64, op: u8, obs: &mut Obs) {
    obs.nt();
    let vdaf = match guard(|| Prio2::new(len)) {
        Err(p) => {
            obs.fail(format!("prio2-new-{}", panic_sig(&p)), format!("Prio2::new({len}) panicked: {p}"));
            return;
        }
        Ok(Err(_)) => {
            obs.label("prio2-new:err");
            // documented capacity: 2·next_power_of_two(len + 1) ≤ 2^20
            if len < (1 << 19) {
                obs.fail("prio2-new-refuses-supported-length", format!("Prio2::new({len}) refused a length within the field's capacity"));
            }
            return;
        }
        Ok(Ok(v)) => v,
    };
    obs.label("prio2-new:ok");
    if len > (1 << 20) {
        obs.fail("prio2-new-accepts-oversized", format!("Prio2::new({len}) accepted a length beyond the field's capacity (2n must not exceed 2^20)"));
        return;
    }
    // an accepted length must give a usable instance: large ones are exercised end to end only
    // (one case in 48: an execution at 2^19 elements takes seconds), small ones with every operation
    if len > 5000 && op % 48 != 0 {
        obs.label("prio2:constructed-not-exercised");
        return;
    }
    if len > 5000 {
        obs.label("prio2:large-instance-exercised");
    }
    let key: [u8; 32] = arr_from(seed ^ 5);
    let nonce: [u8; 16] = arr_from(seed ^ 3);
    let meas: Vec<u32> = expand(seed, 1, len).iter().map(|b| (b & 1) as u32).collect();
    match op % 6 {
        0 => {
            // valid extreme works end to end (including length 0 if the constructor accepts it)
            let r = guard(|| -> Result<Vec<u32>, String> {
                let ((), sh) = vdaf.shard(b"", &meas, &nonce).map_err(|e| e.to_string())?;
                let mut st = vec![];
                let mut vs = vec![];
                for j in 0..2 {
                    let (s, v) = vdaf.verify_init(&key, b"", j, &(), &nonce, &(), &sh[j]).map_err(|e| e.to_string())?;
                    st.push(s);
                    vs.push(v);
                }
                vdaf.verifier_shares_to_message(b"", &(), vs).map_err(|e| e.to_string())?;
                let mut aggs = vec![];
                for s in st {
                    match vdaf.verify_next(b"", s, ()).map_err(|e| e.to_string())? {
                        prio::vdaf::VerifyTransition::Finish(o) => aggs.push(vdaf.aggregate(&(), vec![o]).map_err(|e| e.to_string())?),
                        _ => return Err("unexpected round".into()),
                    }
                }
                vdaf.unshard(&(), aggs, 1).map_err(|e| e.to_string())
            });
            match r {
                Ok(Ok(v)) if v == meas => obs.label("prio2:valid-extreme-works"),
                Ok(Ok(v)) => obs.fail("prio2-wrong-result", format!("Prio2({len}) aggregate of one report is {v:?}, expected {meas:?}")),
                Ok(Err(e)) => obs.fail("prio2-valid-extreme-fails", format!("Prio2::new({len}) is accepted but an honest execution fails: {e}")),
                Err(p) => obs.fail(format!("prio2-valid-extreme-{}", panic_sig(&p)), format!("Prio2::new({len}) is accepted but an honest execution panics: {p}")),
            }
        }
        1 => {
            let mut m = meas.clone();
            if seed % 2 == 0 {
                m.push(1)
            } else if m.pop().is_none() {
                m.push(1)
            }
            must_err!(obs, "prio2-shard-wrong-length", format!("Prio2({len}).shard with {} elements", m.len()), vdaf.shard(b"", &m, &nonce));
        }
        2 => {
            if let Ok(((), sh)) = vdaf.shard(b"", &meas, &nonce) {
                for id in [2usize, 3, usize::MAX] {
                    must_err!(obs, "prio2-verify-init-agg-id", format!("Prio2 verify_init with aggregator id {id}"), vdaf.verify_init(&key, b"", id, &(), &nonce, &(), &sh[0]));
                }
            }
        }
        3 => {
            // directly constructed leader shares of the wrong length
            let want = crate::codec::prio2_proof_length(len);
            for l in [0usize, 1, want.saturating_sub(1), want + 1, len] {
                if l != want {
                    let s: Share<FieldPrio2, 32> = Share::Leader(vec![FieldPrio2::from_u128(1); l]);
                    must_err!(obs, "prio2-verify-init-wrong-length-share", format!("Prio2({len}) verify_init with a leader share of {l} elements (needs {want})"), vdaf.verify_init(&key, b"", 0, &(), &nonce, &(), &s));
                    must_err!(obs, "prio2-verify-init-wrong-length-share", format!("Prio2({len}) verify_init_with_query_rand with a leader share of {l} elements"), vdaf.verify_init_with_query_rand(FieldPrio2::from_u128(12345), &s, true));
                }
            }
        }
        4 => {
            if let Ok(((), sh)) = vdaf.shard(b"", &meas, &nonce) {
                let mut vs = vec![];
                for j in 0..2 {
                    if let Ok((_, v)) = vdaf.verify_init(&key, b"", j, &(), &nonce, &(), &sh[j]) {
                        vs.push(v);
                    }
                }
                if vs.len() == 2 {
                    let wrapped: Vec<_> = (0..258).map(|i| vs[i % 2].clone()).collect();
                    for list in [vec![], vec![vs[0].clone()], vec![vs[0].clone(), vs[1].clone(), vs[1].clone()], wrapped] {
                        must_err!(obs, "prio2-shares-to-message-wrong-count", format!("Prio2 verifier_shares_to_message with {} shares", list.len()), vdaf.verifier_shares_to_message(b"", &(), list.clone()));
                    }
                }
                // role swap: never a panic
                no_panic!(obs, "prio2-helper-share-as-leader", "Prio2 verify_init(helper share, id 0)", vdaf.verify_init(&key, b"", 0, &(), &nonce, &(), &sh[1]));
                no_panic!(obs, "prio2-leader-share-as-helper", "Prio2 verify_init(leader share, id 1)", vdaf.verify_init(&key, b"", 1, &(), &nonce, &(), &sh[0]));
            }
        }
        _ => {
            use prio::vdaf::{AggregateShare, OutputShare};
            let long = OutputShare::from(vec![FieldPrio2::from_u128(1); len + 1]);
            must_err!(obs, "prio2-aggregate-wrong-length", "Prio2 aggregate with an output share of the wrong length", vdaf.aggregate(&(), vec![long]));
            let short = AggregateShare::from(vec![FieldPrio2::from_u128(1); len + 2]);
            must_err!(obs, "prio2-unshard-wrong-length", "Prio2 unshard with an aggregate share of the wrong length", vdaf.unshard(&(), vec![short], 1));
        }
    }
}

fn dp_ops(op: u8, a: u64, b: u64, f: u32, obs: &mut Obs) {
    obs.nt();
    let fl = f32::from_bits(f);
    match op % 6 {
        0 => {
            let r = guard(|| Rational::from_unsigned(a, b));
            match r {
                Ok(r) => {
                    if r.is_ok() != (b != 0) {
                        obs.fail("rational-from-unsigned", format!("Rational::from_unsigned({a}, {b}) returned {}", if r.is_ok() { "Ok" } else { "Err" }));
                    }
                }
                Err(p) => obs.fail(format!("rational-from-unsigned-{}", panic_sig(&p)), format!("Rational::from_unsigned({a}, {b}) panicked: {p}")),
            }
        }
        1 => {
            let valid = fl.is_finite() && fl >= 0.0;
            match guard(|| Rational::try_from(fl)) {
                Ok(r) => {
                    if r.is_ok() != valid {
                        obs.fail("rational-try-from-f32", format!("Rational::try_from({fl:?}) returned {}", if r.is_ok() { "Ok" } else { "Err" }));
                    }
                }
                Err(p) => obs.fail(format!("rational-try-from-f32-{}", panic_sig(&p)), format!("Rational::try_from({fl:?}) panicked: {p}")),
            }
        }
        2 => {
            if b != 0 {
                let eps = Rational::from_unsigned(a, b).unwrap();
                let z = guard(|| ZCdpBudget::new(eps.clone()));
                let p = guard(|| PureDpBudget::new(eps.clone()));
                match (z, p) {
                    (Ok(z), Ok(p)) => {
                        if z.is_ok() != (a != 0) || p.is_ok() != (a != 0) {
                            obs.fail("budget-new", format!("budget constructors with epsilon {a}/{b}: zCDP {} pure {}", z.is_ok(), p.is_ok()));
                        }
                    }
                    _ => obs.fail("budget-new-panic", "a budget constructor panicked"),
                }
            }
        }
        3 => {
            if b != 0 {
                let r = Rational::from_unsigned(a, b).unwrap();
                match guard(|| (DiscreteLaplace::new(r.clone()).is_ok(), DiscreteGaussian::new(r.clone()).is_ok())) {
                    Ok((l, g)) => {
                        if l != (a != 0) || !g {
                            obs.fail("distribution-new", format!("DiscreteLaplace::new({a}/{b}) ok = {l}, DiscreteGaussian::new ok = {g}"));
                        }
                    }
                    Err(p) => obs.fail(format!("distribution-new-{}", panic_sig(&p)), format!("distribution constructor panicked: {p}")),
                }
            }
        }
        4 => {
            // create_distribution with extreme sensitivities
            if a != 0 && b != 0 {
                let eps = Rational::from_unsigned(a, b).unwrap();
                let sens = Rational::from_unsigned(f as u128, 1u128).unwrap();
                let pure = PureDpDiscreteLaplace::from_budget(PureDpBudget::new(eps.clone()).unwrap());
                let z = ZCdpDiscreteGaussian::from_budget(ZCdpBudget::new(eps).unwrap());
                match guard(|| (pure.create_distribution(sens.clone()).is_ok(), z.create_distribution(sens.clone()).is_ok())) {
                    Ok((l, _g)) => {
                        if l != (f != 0) {
                            obs.fail("create-distribution", format!("PureDpDiscreteLaplace::create_distribution(sensitivity {f}) ok = {l}"));
                        }
                    }
                    Err(p) => obs.fail(format!("create-distribution-{}", panic_sig(&p)), format!("create_distribution panicked: {p}")),
                }
            }
        }
        _ => {
            // add_noise_to_agg_share on shares of the right and wrong length
            if a != 0 && b != 0 {
                let eps = Rational::from_unsigned(a % 1000 + 1, b % 1000 + 1).unwrap();
                let strat = PureDpDiscreteLaplace::from_budget(PureDpBudget::new(eps).unwrap());
                let vdaf = Prio3::new_histogram(2, 4, 2).unwrap();
                for l in [4usize, 0, 3, 5] {
                    let mut share = prio::vdaf::AggregateShare::from(vec![Field128::from_u128(1); l]);
                    match guard(|| vdaf.add_noise_to_agg_share(&strat, &(), &mut share, 1)) {
                        Ok(_) => {}
                        Err(p) => obs.fail(format!("add-noise-{}", panic_sig(&p)), format!("add_noise_to_agg_share on a share of {l} elements panicked: {p}")),
                    }
                }
            }
        }
    }
}

fn cfg_extreme() -> BoxedStrategy<VdafCfg> {
    (
        (0u8..7, any::<bool>(), any::<u8>(), any::<u64>(), any::<u64>()),
        (any::<u8>(), any::<u64>(), any::<u8>(), any::<u64>(), any::<u8>(), any::<u64>()),
        (prop_oneof![Just(0u8), Just(1), Just(2), Just(3), Just(254), Just(255), any::<u8>()], prop_oneof![Just(0u8), Just(1), Just(2), Just(255), any::<u8>()], any::<bool>()),
    )
        .prop_map(|((kind, generic, msel, r1, r2), (lsel, lrnd, csel, crnd, wsel, wrnd), (n_agg, n_proofs, small))| {
            let shipped = if kind < 2 { FieldKind::F64 } else { FieldKind::F128 };
            let f = if generic {
                if shipped == FieldKind::F64 {
                    FieldKind::F128
                } else {
                    FieldKind::F64
                }
            } else {
                shipped
            };
            let max = U(ext_u128(f, msel, ((r1 as u128) << 64) | r2 as u128));
            // `small` keeps most instances affordable so that "valid extreme works" is exercised
            let len = if small { ext_usize(24 + lsel % 10, lrnd) } else { ext_usize(lsel, lrnd) };
            let chunk = if small && csel % 3 != 0 { ext_usize(24 + csel % 10, crnd) } else { ext_usize(csel, crnd) };
            let mw = if small { ext_usize(24 + wsel % 10, wrnd) } else { ext_usize(wsel, wrnd) };
            let inst = match kind {
                0 => Inst::Count { f },
                1 => Inst::Sum { f, max },
                2 => Inst::Average { f, max },
                3 => Inst::SumVec { f, max, len, chunk, mt: false },
                4 => Inst::Histogram { f, len, chunk, mt: false },
                5 => Inst::Multihot { f, len, max_weight: mw, chunk, mt: false },
                _ => Inst::L1 { f, max, len, chunk },
            };
            VdafCfg { alg_id: inst.default_alg_id(), inst, xof: XofKind::Turbo, n_agg, n_proofs }
        })
        .boxed()
}

impl Check for C16 {
    type Case = Case;
    const ID: &'static str = "C16";
    fn rule(&self) -> String {
        "a table of the Result-returning public entry points of Prio3, Poplar1, Prio2, the FLP types, IDPF and the DP types, each with generated arguments over {0, 1, 2, boundaries of the documented domain ± 1, modulus ± 1, u8/u16/u32/usize::MAX, 2^63, usize::MAX/2+1} ∪ random and an expectation per class: MustErr (documented rejection), MustOk (valid extreme: the instance is then used end to end when its memory footprint fits 16 MiB), NoPanic (anything else). Covered: all Prio3/FLP constructors incl. num_aggregators and num_proofs; encode_measurement/shard with out-of-range and wrong-length measurements (exact accept/reject oracle from the documented encoding); shard_with_random with wrong randomness length; verify_init with out-of-range ids, swapped roles and directly constructed malformed shares; verifier_shares_to_message with wrong counts; verify_next with foreign states/messages; aggregate/unshard/decode_result with wrong lengths; Poplar1 with bits = 0, wrong input lengths, ids, levels, variant mismatches; Prio2 constructor and operations; IDPF gen; prefix lists; DP constructors and noise application. Non-trivial = an argument tuple outside the documented domain or on its boundary; distinct by case hash".into()
    }
    fn assumptions(&self) -> Vec<String> {
        vec!["allocation-proportional operations are skipped above a 16 MiB footprint estimate (the constructor is still called and its cheap accessors are)".into()]
    }
    fn strategy(&self, _tier: Tier) -> BoxedStrategy<Case> {
        let mut lim = Limits::small();
        lim.big_aggs = false;
        let small_cfg = move || cfg_strategy(lim);
        // measurements: room for several full-width entries (an L1BoundSum entry of a bound above
        // 2^127 takes 128 elements)
        let mut mlim = lim;
        mlim.max_input_len = 700;
        mlim.max_work = 8_000;
        let meas_cfg = move || cfg_strategy(mlim);
        let misuse = prop_oneof![
            2 => (-3i8..=3).prop_map(P3Misuse::RandLen),
            3 => (any::<u8>(), any::<u8>(), any::<u64>()).prop_map(|(share, id_sel, id_rnd)| P3Misuse::AggId { share, id_sel, id_rnd }),
            1 => Just(P3Misuse::RoleSwap),
            4 => (-2i8..=2, -2i8..=2, any::<bool>()).prop_map(|(meas_delta, proofs_delta, toggle_blind)| P3Misuse::BadLeaderShare { meas_delta, proofs_delta, toggle_blind }),
            1 => Just(P3Misuse::BadHelperShare),
            2 => any::<u8>().prop_map(P3Misuse::ShareCount),
            3 => any::<u8>().prop_map(|what| P3Misuse::CrossInstance { what }),
            2 => Just(P3Misuse::BadAggregate),
        ];
        let popop = prop_oneof![
            3 => prop_oneof![0usize..=12, Just(64usize)].prop_map(|input_len| PopOp::Shard { input_len }),
            2 => (any::<u8>(), any::<u64>()).prop_map(|(id_sel, id_rnd)| PopOp::VerifyInitAggId { id_sel, id_rnd }),
            2 => (0usize..=14).prop_map(|level| PopOp::VerifyInitLevel { level }),
            1 => Just(PopOp::DecodeInputShare),
            2 => any::<u8>().prop_map(PopOp::SharesToMessage),
            3 => (any::<u8>(), any::<u8>()).prop_map(|(a, b)| PopOp::VerifyNextCross(a, b)),
            2 => Just(PopOp::UnshardMixed),
            1 => (0usize..=14).prop_map(|level| PopOp::AggregateInitLevel { level }),
        ];
        prop_oneof![
            6 => cfg_extreme().prop_map(|cfg| Case::P3Ctor { cfg }),
            5 => (meas_cfg(), any::<u8>(), any::<u64>()).prop_map(|(cfg, sel, seed)| {
                let meas = arb_meas(&cfg.inst, sel, seed);
                Case::P3Measurement { cfg, meas }
            }),
            6 => (small_cfg(), any::<u64>(), misuse).prop_map(|(cfg, seed, m)| Case::P3Misuse { cfg, seed, m }),
            4 => (prop_oneof![Just(0usize), 1usize..=10], any::<u64>(), popop).prop_map(|(bits, seed, op)| Case::Poplar { bits, seed, op }),
            3 => (any::<u8>(), any::<u64>(), any::<u64>(), any::<u8>()).prop_map(|(len_sel, len_rnd, seed, op)| Case::Prio2 { len_sel, len_rnd, seed, op }),
            1 => (inst_strategy(Limits::small()), -2i8..=2).prop_map(|(inst, delta)| Case::FlpDirect { inst, delta }),
            1 => (0usize..=8, 0usize..=10, prop_oneof![Just(16usize), 0usize..=33]).prop_map(|(bits, n_inner, nonce_len)| Case::IdpfGen { bits, n_inner, nonce_len }),
            1 => (prop::collection::vec(prop_oneof![Just(0u32), 1u32..=9, Just(65535), Just(65536), Just(65537)], 0..=4), any::<u64>()).prop_map(|(lens, seed)| Case::Prefixes { lens, seed }),
            2 => (any::<u8>(), prop_oneof![Just(0u64), Just(1), any::<u64>()], prop_oneof![Just(0u64), Just(1), any::<u64>()], any::<u32>()).prop_map(|(op, a, b, f)| Case::Dp { op, a, b, f }),
        ]
        .boxed()
    }
    fn num_cases(&self, tier: Tier) -> u64 {
        tier.pick(250_000, 5_000_000)
    }
    fn max_shrink_iters(&self) -> u32 {
        400
    }
    fn builtin_corpus(&self) -> Vec<Case> {
        let h = |len, chunk| VdafCfg { inst: Inst::Histogram { f: FieldKind::F128, len, chunk, mt: false }, xof: XofKind::Turbo, n_agg: 2, n_proofs: 1, alg_id: 4 };
        vec![
            // DESIGN.md §5 rows 1, 5, 6, 7, 8
            Case::P3Measurement { cfg: h(4, 2), meas: Meas::Index(4) },
            Case::P3Measurement { cfg: h(4, 2), meas: Meas::Index(7) },
            Case::P3Measurement { cfg: h(4, 2), meas: Meas::Index(usize::MAX) },
            Case::P3Ctor { cfg: VdafCfg { inst: Inst::L1 { f: FieldKind::F128, max: U(1), len: usize::MAX, chunk: 1 }, xof: XofKind::Turbo, n_agg: 2, n_proofs: 1, alg_id: 7 } },
            Case::Prio2 { len_sel: 19, len_rnd: 0, seed: 1, op: 0 },
            Case::Prio2 { len_sel: 17, len_rnd: 0, seed: 1, op: 0 },
            Case::Prio2 { len_sel: 0, len_rnd: 0, seed: 1, op: 0 },
            // capacity boundary of Prio2: 2^19 − 1 is the largest usable length
            Case::Prio2 { len_sel: 42, len_rnd: 0, seed: 1, op: 0 },
            Case::Prio2 { len_sel: 43, len_rnd: 0, seed: 1, op: 0 },
            Case::Prio2 { len_sel: 44, len_rnd: 0, seed: 1, op: 0 },
            Case::Prio2 { len_sel: 12, len_rnd: 0, seed: 1, op: 0 },
            Case::Poplar { bits: 0, seed: 1, op: PopOp::Shard { input_len: 0 } },
            Case::Poplar { bits: 0, seed: 1, op: PopOp::DecodeInputShare },
            Case::P3Misuse { cfg: h(4, 2), seed: 3, m: P3Misuse::BadLeaderShare { meas_delta: 0, proofs_delta: -1, toggle_blind: false } },
            Case::P3Misuse { cfg: h(4, 2), seed: 3, m: P3Misuse::BadLeaderShare { meas_delta: 0, proofs_delta: 0, toggle_blind: true } },
            Case::P3Misuse { cfg: h(4, 2), seed: 3, m: P3Misuse::BadHelperShare },
            Case::P3Ctor { cfg: h(4, usize::MAX) },
            Case::P3Ctor { cfg: h(4, usize::MAX / 2 + 1) },
            // repo eedc1df: 256 + n verifier shares wrapped the u8 share counter back onto n
            Case::P3Misuse { cfg: h(4, 2), seed: 3, m: P3Misuse::ShareCount(5) },
            Case::P3Misuse { cfg: h(4, 2), seed: 3, m: P3Misuse::ShareCount(6) },
            Case::P3Misuse { cfg: VdafCfg { inst: Inst::Count { f: FieldKind::F64 }, xof: XofKind::Turbo, n_agg: 3, n_proofs: 1, alg_id: 1 }, seed: 5, m: P3Misuse::ShareCount(6) },
            Case::P3Misuse { cfg: VdafCfg { inst: Inst::Count { f: FieldKind::F64 }, xof: XofKind::Turbo, n_agg: 2, n_proofs: 1, alg_id: 1 }, seed: 5, m: P3Misuse::ShareCount(8) },
        ]
    }
    fn run(&self, case: &Case) -> Outcome {
        let mut obs = Obs::new();
        match case {
            Case::P3Ctor { cfg } => {
                obs.label(format!("ctor:{}", cfg.inst.name()));
                let expect = ctor_expectation(cfg);
                if expect != Some(true) {
                    obs.nt();
                }
                match guard(|| with_vdaf(cfg, CtorRun { cfg, obs: &mut obs })) {
                    Err(p) => obs.fail(format!("ctor-{}-{}", cfg.inst.name(), panic_sig(&p)), format!("constructing {cfg:?} panicked: {p}")),
                    Ok(Ok(())) => {
                        obs.label("ctor:accepted");
                        if expect == Some(false) {
                            obs.fail(format!("ctor-{}-accepts-out-of-domain", cfg.inst.name()), format!("the constructor accepted parameters outside the documented domain: {cfg:?}"));
                        }
                    }
                    Ok(Err(e)) => {
                        obs.label("ctor:refused");
                        if expect == Some(true) {
                            obs.fail(format!("ctor-{}-refuses-valid", cfg.inst.name()), format!("the constructor refused parameters inside the documented domain: {cfg:?}: {e}"));
                        }
                    }
                }
            }
            Case::P3Measurement { cfg, meas } => {
                obs.label(format!("measurement:{}", cfg.inst.name()));
                if meas_compatible(&cfg.inst, meas) && meas_fits_api(&cfg.inst, meas) {
                    if let Err(e) = with_vdaf(cfg, MeasRun { cfg, meas, obs: &mut obs }) {
                        obs.fail("constructor-refused-admissible-parameters", e);
                    }
                }
            }
            Case::P3Misuse { cfg, seed, m } => {
                obs.label(format!("misuse:{}", format!("{m:?}").split([' ', '(', '{']).next().unwrap_or("")));
                if let Err(e) = with_vdaf(cfg, MisuseRun { cfg, seed: *seed, m, obs: &mut obs }) {
                    obs.fail("constructor-refused-admissible-parameters", e);
                }
            }
            Case::Poplar { bits, seed, op } => poplar_ops(*bits, *seed, op, &mut obs),
            Case::Prio2 { len_sel, len_rnd, seed, op } => prio2_ops(ext_usize(*len_sel, *len_rnd), *seed, *op, &mut obs),
            Case::FlpDirect { inst, delta } => {
                obs.label("flp-direct");
                struct V<'a> {
                    delta: i8,
                    obs: &'a mut Obs,
                }
                impl<'a> TypeVisitor for V<'a> {
                    type Out = ();
                    fn visit<T>(self, typ: T)
                    where
                        T: TypeBridge + 'static,
                        T::Field: FieldBig,
                    {
                        let obs = self.obs;
                        let ol = (typ.output_len() as i64 + self.delta as i64).max(0) as usize;
                        let il = (typ.input_len() as i64 + self.delta as i64).max(0) as usize;
                        if self.delta != 0 {
                            obs.nt();
                            must_err!(obs, "decode-result-wrong-length", format!("decode_result with {ol} elements"), typ.decode_result(&vec![T::Field::from_u128(1); ol], 1));
                            must_err!(obs, "truncate-wrong-length", format!("truncate with {il} elements"), typ.truncate(vec![T::Field::from_u128(1); il]));
                        } else {
                            no_panic!(obs, "decode-result", "decode_result", typ.decode_result(&vec![T::Field::from_u128(1); ol], 0));
                        }
                    }
                }
                let _ = with_type(inst, V { delta: *delta, obs: &mut obs });
            }
            Case::IdpfGen { bits, n_inner, nonce_len } => {
                obs.label("idpf-gen");
                obs.nt();
                let idpf = Idpf::<Poplar1IdpfValue<Field64>, Poplar1IdpfValue<Field255>>::new((), ());
                let input = IdpfInput::from_bools(&vec![true; *bits]);
                let inner: Vec<Poplar1IdpfValue<Field64>> = (0..*n_inner).map(|i| Poplar1IdpfValue::new([Field64::from_u128(1), Field64::from_u128(i as u128)])).collect();
                let leaf = Poplar1IdpfValue::new([Field255::from_u128(1), Field255::from_u128(5)]);
                let nonce = vec![3u8; *nonce_len];
                let well_formed = *bits >= 1 && *n_inner == bits - 1;
                match guard(|| idpf.gen(&input, inner.clone(), leaf, b"ctx", &nonce)) {
                    Err(p) => obs.fail(format!("idpf-gen-{}", panic_sig(&p)), format!("Idpf::gen with a {bits}-bit input and {n_inner} inner values panicked: {p}")),
                    Ok(r) => {
                        if r.is_ok() != well_formed {
                            obs.fail(if well_formed { "idpf-gen-refuses-valid" } else { "idpf-gen-accepts-invalid" }, format!("Idpf::gen with a {bits}-bit input and {n_inner} inner values returned {}", if r.is_ok() { "Ok" } else { "Err" }));
                        }
                    }
                }
            }
            Case::Prefixes { lens, seed } => {
                obs.label("prefix-list");
                obs.nt();
                let mut prefixes: Vec<Bits> = lens.iter().enumerate().map(|(i, l)| Bits::from_seed(seed.wrapping_add(i as u64) | 2, *l as usize)).collect();
                prefixes.sort_by(|a, b| a.bools().cmp(&b.bools()));
                let list: Vec<IdpfInput> = prefixes.iter().map(|b| b.idpf()).collect();
                no_panic!(obs, "try-from-prefixes", format!("try_from_prefixes with lengths {lens:?}"), Poplar1AggregationParam::try_from_prefixes(list));
            }
            Case::Dp { op, a, b, f } => {
                obs.label(format!("dp:{}", op % 6));
                dp_ops(*op, *a, *b, *f, &mut obs)
            }
        }
        obs.finish()
    }
}
