//! C17 — helper shares are independent of the measurement; the leader share is masked.

use crate::c03::Bits;
use crate::gen::*;
use crate::harness::*;
use crate::p3::*;
use crate::util::*;
use num_bigint::BigUint;
use prio::vdaf::poplar1::Poplar1;
use prio::vdaf::prio3::Prio3;
use prio::vdaf::xof::{Xof, XofFixedKeyAes128, XofTurboShake128};
use proptest::prelude::*;
use serde::{Deserialize, Serialize};

pub struct C17;

#[derive(Clone, Debug, Serialize, Deserialize)]
pub enum Case {
    Prio3 { cfg: VdafCfg, ctx: Hex, nonce_seed: u64, rand_seed: u64, m1: Meas, m2: Meas },
    Poplar1 { bits: usize, aes: bool, ctx: Hex, nonce_seed: u64, rand_seed: u64, in1: Bits, in2: Bits },
}

struct Run<'a> {
    case: &'a Case,
    obs: &'a mut Obs,
}

impl<'a> VdafVisitor for Run<'a> {
    type Out = ();
    fn visit<T, P>(self, vdaf: Prio3<T, P, 32>, _typ: T)
    where
        T: TypeBridge + 'static,
        T::Field: FieldBig,
        P: Xof<32> + 'static,
    {
        let Case::Prio3 { cfg, ctx, nonce_seed, rand_seed, m1, m2 } = self.case else { return };
        let obs = self.obs;
        let nonce: [u8; 16] = arr_from(*nonce_seed);
        let rand = bytes_from(*rand_seed, cfg.rand_len());
        let a = shard_wire(&vdaf, &ctx.0, &T::to_meas(m1), &nonce, &rand);
        let b = shard_wire(&vdaf, &ctx.0, &T::to_meas(m2), &nonce, &rand);
        let (a, b) = match (a, b) {
            (Ok(a), Ok(b)) => (a, b),
            (Err(f), _) | (_, Err(f)) => {
                obs.fail("honest-shard", format!("honest sharding failed: {}", f.describe()));
                return;
            }
        };
        let n = cfg.n_agg as usize;
        let p = cfg.inst.field().modulus();
        let es = cfg.inst.field().size();
        let e1 = model_encode(&cfg.inst, m1).expect("in range");
        let e2 = model_encode(&cfg.inst, m2).expect("in range");
        if e1 != e2 {
            obs.nt();
        } else {
            obs.label("equal-encodings");
        }
        // helpers: no byte depends on the measurement
        for j in 1..n {
            if a.input_shares[j] != b.input_shares[j] {
                obs.fail("helper-share-depends-on-measurement", format!("input share of helper {j} differs between two measurements under identical randomness and nonce"));
                return;
            }
        }
        // leader: measurement share differs exactly by the difference of the encodings; the blind is the same
        let il = cfg.inst.input_len();
        let pl = crate::codec::p3_proof_len(&cfg.inst) * cfg.n_proofs as usize;
        let (la, lb) = (&a.input_shares[0], &b.input_shares[0]);
        let want_len = (il + pl) * es + if cfg.inst.has_joint_rand() { 32 } else { 0 };
        if la.len() != want_len || lb.len() != want_len {
            obs.fail("leader-share-length", format!("leader share has {} bytes, expected {want_len}", la.len()));
            return;
        }
        for i in 0..il {
            let x = BigUint::from_bytes_le(&la[i * es..(i + 1) * es]);
            let y = BigUint::from_bytes_le(&lb[i * es..(i + 1) * es]);
            let got = (x + &p - y) % &p;
            let want = (&e1[i] + &p - &e2[i]) % &p;
            if got != want {
                obs.fail("leader-mask-depends-on-measurement", format!("element {i}: leader_share(m1) − leader_share(m2) = {got}, encode(m1) − encode(m2) = {want}: the mask is not independent of the measurement"));
                return;
            }
        }
        if cfg.inst.has_joint_rand() {
            if la[want_len - 32..] != lb[want_len - 32..] {
                obs.fail("leader-blind-depends-on-measurement", "the leader's joint-randomness blind differs between two measurements");
                return;
            }
            // public share: only the leader's part may differ
            if a.public_share.len() != 32 * n || a.public_share[32..] != b.public_share[32..] {
                obs.fail("helper-joint-rand-part-depends-on-measurement", "a helper's joint-randomness part in the public share differs between two measurements");
                return;
            }
            if e1 != e2 && a.public_share[..32] == b.public_share[..32] {
                obs.fail("leader-joint-rand-part-ignores-measurement", "the leader's joint-randomness part is identical for two different encodings (it must commit to the leader share)");
                return;
            }
        } else if !a.public_share.is_empty() || !b.public_share.is_empty() {
            obs.fail("public-share-nonempty", "public share of a type without joint randomness is not empty");
        }
    }
}

fn poplar_generic<P: Xof<K> + 'static, const K: usize>(bits: usize, ctx: &[u8], nonce_seed: u64, rand_seed: u64, in1: &Bits, in2: &Bits, obs: &mut Obs) {
    let vdaf = Poplar1::<P, K>::new(bits);
    let nonce: [u8; 16] = arr_from(nonce_seed);
    let rand = bytes_from(rand_seed, 32 + 3 * K);
    let a = shard_wire(&vdaf, ctx, &in1.idpf(), &nonce, &rand);
    let b = shard_wire(&vdaf, ctx, &in2.idpf(), &nonce, &rand);
    let (a, b) = match (a, b) {
        (Ok(a), Ok(b)) => (a, b),
        (Err(f), _) | (_, Err(f)) => {
            obs.fail("honest-shard", format!("honest Poplar1 sharding failed: {}", f.describe()));
            return;
        }
    };
    if in1 != in2 {
        obs.nt();
    }
    for j in 0..2 {
        if a.input_shares[j] != b.input_shares[j] {
            let i = a.input_shares[j].iter().zip(&b.input_shares[j]).position(|(x, y)| x != y).unwrap_or(0);
            let region = if i < 16 { "IDPF key" } else if i < 16 + K { "correlated-randomness seed" } else if i < 16 + K + 16 * (bits - 1) { "inner correlated-randomness shares" } else { "leaf correlated-randomness shares" };
            obs.fail("poplar-input-share-depends-on-input", format!("input share of aggregator {j} differs between two inputs under identical randomness (first difference at byte {i}: {region})"));
            return;
        }
    }
    if in1 != in2 && a.public_share == b.public_share {
        obs.fail("poplar-public-share-ignores-input", "the public correction words are identical for two different inputs");
    }
}

impl Check for C17 {
    type Case = Case;
    const ID: &'static str = "C17";
    fn rule(&self) -> String {
        "proptest-generated (instance, two in-range measurements, one ctx/nonce/sharding randomness incl. all-zero and all-ones): Prio3 — every helper input share byte-identical across the two measurements, leader blind identical, leader_share(m1) − leader_share(m2) = encode(m1) − encode(m2) element-wise against the documented encoding, only the leader's part of the public share differs (and does differ); Poplar1 (both XOF instantiations) — both input shares byte-identical, only the public share differs. Non-trivial = the two encodings/inputs differ; distinct by case hash".into()
    }
    fn strategy(&self, tier: Tier) -> BoxedStrategy<Case> {
        let mut lim = Limits::quick();
        lim.max_input_len = tier.pick(300, 3000);
        lim.max_work = tier.pick(20_000, 300_000);
        let p3 = (cfg_strategy(lim), ctx_strategy(), seed_strategy(), seed_strategy(), (any::<u8>(), any::<u64>()), (any::<u8>(), any::<u64>()), any::<u8>()).prop_map(|(mut cfg, ctx, nonce_seed, rand_seed, (s1, r1), (s2, r2), single)| {
            // "all aggregator counts": a single aggregator is a legal instance (no helper, the
            // leader's share is the encoding itself); the leader-difference clause still applies
            if single % 16 == 0 {
                cfg.n_agg = 1;
            }
            let m1 = meas_from(&cfg.inst, s1, r1);
            let m2 = meas_from(&cfg.inst, s2, r2);
            Case::Prio3 { cfg, ctx, nonce_seed, rand_seed, m1, m2 }
        });
        let pop = (prop_oneof![1usize..=16, 17usize..=200], any::<bool>(), ctx_strategy(), seed_strategy(), seed_strategy(), seed_strategy(), seed_strategy(), any::<u16>()).prop_map(|(bits, aes, ctx, nonce_seed, rand_seed, i1, i2, flip)| {
            let in1 = Bits::from_seed(i1, bits);
            // either an unrelated input or one differing in a single generated bit
            let in2 = if i2 % 2 == 0 {
                Bits::from_seed(i2, bits)
            } else {
                let mut b = in1.bools();
                let k = idx16(flip, bits);
                b[k] = !b[k];
                Bits::from_bools(&b)
            };
            Case::Poplar1 { bits, aes, ctx, nonce_seed, rand_seed, in1, in2 }
        });
        prop_oneof![3 => p3, 2 => pop].boxed()
    }
    fn num_cases(&self, tier: Tier) -> u64 {
        tier.pick(30_000, 600_000)
    }
    fn builtin_corpus(&self) -> Vec<Case> {
        // element counts beyond 2^16 (see gen::wide_cfgs); measurements touching the far end
        let mut v = vec![];
        for (i, cfg) in wide_cfgs().into_iter().enumerate() {
            for (s1, s2) in [(2u8, 7u8), (1, 3)] {
                let m1 = meas_from(&cfg.inst, s1, 500 + i as u64);
                let m2 = meas_from(&cfg.inst, s2, 600 + i as u64);
                v.push(Case::Prio3 { cfg: cfg.clone(), ctx: Hex(b"wide".to_vec()), nonce_seed: 9 + i as u64, rand_seed: 90 + i as u64, m1, m2 });
            }
        }
        v
    }
    fn run(&self, case: &Case) -> Outcome {
        let mut obs = Obs::new();
        match case {
            Case::Prio3 { cfg, .. } => {
                obs.label(format!("prio3:{}", cfg.inst.name()));
                if cfg.n_agg >= 3 {
                    obs.label("helpers>=2");
                }
                if let Err(e) = with_vdaf(cfg, Run { case, obs: &mut obs }) {
                    obs.fail("constructor-refused-admissible-parameters", e);
                }
            }
            Case::Poplar1 { bits, aes, ctx, nonce_seed, rand_seed, in1, in2 } => {
                obs.label(if *aes { "poplar1:aes" } else { "poplar1:turboshake" });
                if *aes {
                    poplar_generic::<XofFixedKeyAes128, 16>(*bits, &ctx.0, *nonce_seed, *rand_seed, in1, in2, &mut obs)
                } else {
                    poplar_generic::<XofTurboShake128, 32>(*bits, &ctx.0, *nonce_seed, *rand_seed, in1, in2, &mut obs)
                }
            }
        }
        obs.finish()
    }
}
