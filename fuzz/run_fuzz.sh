#!/bin/bash
# run_fuzz.sh <ID> <tier>: coverage-guided tier of C07 / C08 (thorough only; the quick tier replays
# the saved regression inputs). Exit 0 held, 1 VIOLATION (line printed), 2 inconclusive.
set -u
id="$1"; tier="$2"
case "$id" in C07|C08) ;; *) exit 0 ;; esac
cd /verif/fuzz || exit 2
export CARGO_NET_OFFLINE=true
PV=/verif/.target/release/pv
BIN=/verif/fuzz/target/x86_64-unknown-linux-gnu/release/codec
seed=$(( ${VERIF_SEED:-0} + 1 ))
regress=/verif/fuzz/regress
mkdir -p "$regress"
judge() {
    # turn a libFuzzer artifact into a replayable case of the property it violates
    local art="$1"
    out=$("$PV" fuzz-artifact "$art" 2>&1)
    if echo "$out" | grep -qE "^VIOLATION property=$id "; then
        echo "$out" | grep -E "^pv: violation" | head -1
        echo "$out" | grep -E "^VIOLATION property=$id " | head -1
        return 1
    fi
    # (a violation of the sibling property only is reported by that property's own run)
    return 0
}
if [ "$tier" != "thorough" ]; then
    # replay tier: saved inputs through the same oracle, in-process (no fuzz build needed)
    n=0
    for f in "$regress"/*; do
        [ -f "$f" ] || continue
        n=$((n+1))
        judge "$f" || exit 1
    done
    echo "fuzz: replayed $n saved inputs"
    exit 0
fi
if ! cargo +nightly fuzz build --fuzz-dir /verif/fuzz codec >/verif/fuzz/build.log 2>&1; then
    echo "fuzz: target does not build (inconclusive)" >&2; tail -20 /verif/fuzz/build.log >&2; exit 2
fi
work=/verif/fuzz/corpus-work/$id
rm -rf "$work"; mkdir -p "$work/corpus" "$work/artifacts"
"$PV" dump-corpus "$work/corpus" >/dev/null || exit 2
cp "$regress"/* "$work/corpus/" 2>/dev/null
runs=${PV_FUZZ_RUNS:-3000000}
jobs=${PV_FUZZ_JOBS:-16}
( cd "$work" && "$BIN" corpus -runs=$runs -seed=$seed -len_control=0 -max_len=4096 -malloc_limit_mb=256 -rss_limit_mb=4096 -timeout=10 -jobs=$jobs -workers=$jobs -artifact_prefix=artifacts/ -print_final_stats=1 >fuzz.log 2>&1 )
rc=$?
execs=$(grep -h "stat::number_of_executed_units" "$work"/fuzz-*.log 2>/dev/null | awk '{s+=$2} END {print s+0}')
corp=$(ls "$work/corpus" | wc -l)
arts=$(ls "$work/artifacts" 2>/dev/null | wc -l)
echo "fuzz: $id executions=$execs corpus=$corp artifacts=$arts"
# record in the evidence file written by pv
python3 - "$id" "$execs" "$corp" "$arts" "$seed" <<'PY'
import json,sys
p=f"/verif/evidence/{sys.argv[1]}.json"
try:
    e=json.load(open(p))
    e["coverage"]["fuzz"]={"engine":"libFuzzer (cargo-fuzz), target fuzz_targets/codec.rs, oracle inside the target","executions":int(sys.argv[2]),"final_corpus_files":int(sys.argv[3]),"artifacts":int(sys.argv[4]),"seed":int(sys.argv[5])}
    json.dump(e,open(p,"w"),indent=1)
except Exception as ex:
    print("fuzz: could not update evidence:",ex)
PY
if [ "$arts" -gt 0 ]; then
    other=0
    for a in "$work"/artifacts/*; do
        judge "$a" || exit 1
        "$PV" fuzz-artifact "$a" 2>&1 | grep -qE "^VIOLATION" && other=1
    done
    if [ "$other" = 1 ]; then
        echo "fuzz: the artifacts violate the sibling property only (reported by its own check)"
        exit 0
    fi
    echo "fuzz: artifacts did not reproduce under the in-process oracle (inconclusive); kept in $work/artifacts" >&2
    exit 2
fi
exit 0
