#!/usr/bin/env python3
"""Second batch: add /verif/seeded/<Cxx-mN>/ (N in 4,5) from the staging area without touching the
first batch. Only independently confirmed changes are kept (tools/confirm_mutant.sh lines appended to
seeded/confirm.log)."""
import json, os, re, shutil
ST = "/verif/seeded/_staging"
OUT = "/verif/seeded"
RELATED = {"C01": ["C07", "C16"], "C02": ["C05"], "C03": ["C06", "C20"], "C04": ["C16"], "C05": ["C02"], "C06": ["C03"], "C07": ["C01"], "C08": ["C07"], "C11": ["C18"], "C12": ["C07"], "C18": ["C11"], "C19": ["C10", "C16"], "C20": ["C03"]}
EXTRA = {"C05-m6": ["C10"], "C10-m6": ["C05"], "C06-m6": ["C03"], "C03-m7": ["C06"], "C07-m6": ["C01", "C12"], "C01-m6": ["C07", "C12"], "C07-m7": ["C20"], "C20-m6": ["C07"], "C04-m6": ["C16"], "C16-m6": ["C04"], "C08-m7": ["C20"], "C16-m7": ["C01", "C02"], "C18-m7": ["C16"], "C19-m7": [], "C15-m7": [], "C13-m7": ["C03"], "C14-m7": ["C16"], "C12-m6": ["C08", "C07"], "C11-m6": [], "C08-m4": ["C16"], "C16-m4": ["C08"], "C10-m5": ["C05"], "C17-m5": ["C16", "C01"], "C17-m4": ["C06", "C03"], "C07-m5": ["C12"], "C07-m4": ["C09", "C08"], "C09-m5": ["C07"], "C10-m4": ["C05"], "C14-m5": ["C16"], "C15-m5": ["C16"], "C16-m5": ["C01"]}
confirm = {}
for l in open(f"{OUT}/confirm.log"):
    m = re.match(r"CONFIRM (\S+) mut(\d) \| clean-demo: (.*?) \| mutant-demo: (.*?) \| mutant-suite: (.*)", l.strip())
    if m:
        confirm[(m.group(1), int(m.group(2)))] = (m.group(3), m.group(4), m.group(5))
def section(md, pat):
    out, on = [], False
    for l in md.splitlines():
        if l.startswith("#"):
            on = bool(re.search(pat, l, re.I)); continue
        if on: out.append(l)
    return "\n".join(out).strip()
idx = json.load(open(f"{OUT}/INDEX.json"))
kept = [k for k in idx["kept"] if not re.search(r"-m[4567]$", k)]
dropped = idx.get("dropped", {})
for prop in sorted(os.listdir(ST)):
    for n in (4, 5, 6, 7):
        p = f"{ST}/{prop}/mut{n}.patch"
        if not os.path.exists(p): continue
        mid = f"{prop}-m{n}"
        c = confirm.get((prop, n))
        ok = c and c[0].startswith("test result: ok") and ("failed" in c[1] or "error" in c[1]) and re.search(r"failed=0$", c[2]) and not c[2].startswith("passed=0")
        if not ok:
            dropped[mid] = f"not confirmed: {c}"
            continue
        dropped.pop(mid, None)
        md = open(f"{ST}/{prop}/mut{n}.md").read() if os.path.exists(f"{ST}/{prop}/mut{n}.md") else ""
        title = md.splitlines()[0].lstrip("# ").strip() if md else f"{prop} change {n}"
        needs = section(md, r"needed|what is needed|to see") or section(md, r"effect|breaks")
        d = f"{OUT}/{mid}"
        os.makedirs(d, exist_ok=True)
        shutil.copy(p, f"{d}/patch.diff")
        shutil.copy(f"{ST}/{prop}/mut{n}_demo.rs", f"{d}/demo.rs")
        if md: open(f"{d}/notes.md", "w").write(md)
        meta = {
            "id": mid, "breaks_property": prop, "title": title,
            "origin": ("second" if n < 6 else "third") + " batch: written by a fresh sub-agent that saw only the text of the property and a scratch worktree of /repo; nothing from /verif",
            "needs_to_manifest": needs,
            "confirmed": {"how": "tools/confirm_mutant.sh in a scratch worktree: (a) demo.rs as tests/<name>.rs on the unchanged tree with --features experimental,multithreaded,test-util,verif-hooks; (b) cargo test --workspace --no-fail-fast --offline with the change applied; (c) the demo with the change applied", "clean_demo": c[0], "changed_demo": c[1], "changed_suite": c[2]},
            "checks_run": [prop] + [x for x in RELATED.get(prop, []) + EXTRA.get(mid, []) if x != prop],
            "apply": f"git -C /repo apply /verif/seeded/{mid}/patch.diff   (undo: git -C /repo checkout -- .)",
        }
        meta["checks_run"] = list(dict.fromkeys(meta["checks_run"]))
        json.dump(meta, open(f"{d}/meta.json", "w"), indent=1)
        kept.append(mid)
json.dump({"kept": sorted(kept), "dropped": dropped}, open(f"{OUT}/INDEX.json", "w"), indent=1)
print(len(kept), "kept;", {k: v for k, v in dropped.items() if re.search(r"-m[4567]$", k)})
