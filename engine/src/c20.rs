//! C20 — aggregation-parameter admissibility matches the specification for all histories.

use crate::c03::Bits;
use crate::harness::*;
use crate::util::*;
use prio::codec::{Decode, Encode};
use prio::field::Field64;
use prio::flp::types::Count;
use prio::vdaf::poplar1::{Poplar1, Poplar1AggregationParam};
use prio::vdaf::prio2::Prio2;
use prio::vdaf::prio3::Prio3;
use prio::vdaf::xof::XofTurboShake128;
use prio::vdaf::Aggregator;
use proptest::prelude::*;
use serde::{Deserialize, Serialize};

pub struct C20;

type Pop = Poplar1<XofTurboShake128, 32>;

/// A parameter as plain data: level and a set of prefixes (as integers, MSB first).
#[derive(Clone, Debug, Serialize, Deserialize, PartialEq, Eq)]
pub struct P {
    pub level: usize,
    pub prefixes: Vec<Bits>,
}

#[derive(Clone, Debug, Serialize, Deserialize)]
pub enum Case {
    /// universe of ≤ 3-bit parameters: `cur` index against every history made of the given prev
    /// indices followed by every last parameter (block over the last element)
    Small { cur: u16, prev_head: Vec<u16> },
    /// an explicit history
    History { cur: P, prev: Vec<P> },
    /// Prio3 / Prio2: only the first use is valid
    SingleUse { prev_len: usize },
    /// constructor and decoder on an explicit list of prefixes (any lengths, order, repeats)
    List { prefixes: Vec<Bits>, mutate: u8 },
    /// all lists of ≤ 4 prefixes of ≤ 3 bits starting with the given first two elements
    ListBlock { first: u8, second: u8 },
}

/// The 273 parameters over ≤ 3 bits: (level, non-empty subset of the 2^(level+1) prefixes).
fn universe() -> Vec<P> {
    let mut out = vec![];
    for level in 0..3usize {
        let n = 1usize << (level + 1);
        for mask in 1u32..(1u32 << n) {
            let prefixes: Vec<Bits> = (0..n)
                .filter(|i| (mask >> i) & 1 == 1)
                .map(|v| Bits::from_bools(&(0..=level).map(|b| (v >> (level - b)) & 1 == 1).collect::<Vec<_>>()))
                .collect();
            out.push(P { level, prefixes });
        }
    }
    out
}

fn to_lib(p: &P) -> Result<Poplar1AggregationParam, String> {
    Poplar1AggregationParam::try_from_prefixes(p.prefixes.iter().map(|b| b.idpf()).collect()).map_err(|e| e.to_string())
}

/// The rule, written from the property text on plain bit vectors.
fn reference_valid(cur: &P, prev: &[P]) -> bool {
    match prev.last() {
        None => true,
        Some(last) => cur.level > last.level && cur.prefixes.iter().all(|p| last.prefixes.iter().any(|q| q.len <= p.len && p.starts_with(q) && q.len == last.level + 1)),
    }
}

/// Predicate for prefix lists: non-empty, equal lengths ≥ 1 (≤ 65536), strictly increasing.
fn list_ok(list: &[Bits]) -> bool {
    if list.is_empty() {
        return false;
    }
    let len = list[0].len;
    if len == 0 || len > 65536 {
        return false;
    }
    if list.iter().any(|b| b.len != len) {
        return false;
    }
    list.windows(2).all(|w| w[0].bools() < w[1].bools())
}

fn spec_encode(level: usize, list: &[Bits]) -> Vec<u8> {
    let mut out = vec![];
    out.extend_from_slice(&(level as u16).to_be_bytes());
    out.extend_from_slice(&(list.len() as u32).to_be_bytes());
    for b in list {
        out.extend_from_slice(&b.bytes.0);
    }
    out
}

fn check_list(list: &[Bits], mutate: u8, obs: &mut Obs) -> u64 {
    let mut n = 1u64;
    let want = list_ok(list);
    let got = match guard(|| Poplar1AggregationParam::try_from_prefixes(list.iter().map(|b| b.idpf()).collect())) {
        Ok(r) => r,
        Err(p) => {
            obs.fail(format!("try-from-prefixes-{}", panic_sig(&p)), format!("try_from_prefixes panicked on {list:?}: {p}"));
            return n;
        }
    };
    if got.is_ok() != want {
        obs.fail(if want { "constructor-refuses-valid-list" } else { "constructor-accepts-invalid-list" }, format!("try_from_prefixes({list:?}) returned {}, the specification says {}", if got.is_ok() { "Ok" } else { "Err" }, if want { "valid" } else { "invalid" }));
        return n;
    }
    obs.label(if want { "list:valid" } else { "list:invalid" });
    if let Ok(ap) = &got {
        let level = list[0].len - 1;
        if ap.level() != level || ap.prefixes().len() != list.len() || ap.prefixes().iter().zip(list).any(|(a, b)| *a != b.idpf()) {
            obs.fail("constructor-changes-list", format!("try_from_prefixes({list:?}) does not hold the list it was given"));
            return n;
        }
        // encoder against the harness's spec encoder
        let spec = spec_encode(level, list);
        match ap.get_encoded() {
            Ok(b) if b == spec => {}
            other => {
                obs.fail("encoder-differs-from-spec", format!("encoding of {list:?} is {:?}, the specified layout gives {}", other.map(|b| hex(&b)), hex(&spec)));
                return n;
            }
        }
    }
    // decoder on the spec encoding of the list (whenever it is encodable: equal lengths ≥ 1)
    if !list.is_empty() && list[0].len >= 1 && list[0].len <= 65536 && list.iter().all(|b| b.len == list[0].len) {
        let level = list[0].len - 1;
        let mut bytes = spec_encode(level, list);
        let mut canonical = true;
        match mutate % 7 {
            1 if list[0].len % 8 != 0 => {
                // non-zero trailing bit in the last prefix
                let l = bytes.len();
                bytes[l - 1] |= 1;
                canonical = false;
            }
            5 | 6 if list[0].len % 8 != 0 && list.len() >= 2 => {
                // non-zero trailing bit in a prefix that is NOT the last one (each prefix has its
                // own padding)
                let plen = list[0].len.div_ceil(8);
                let k = (mutate as usize / 7) % (list.len() - 1);
                let pad = 8 - list[0].len % 8;
                bytes[6 + (k + 1) * plen - 1] |= 1 << ((mutate as usize / 7) % pad);
                canonical = false;
            }
            2 => {
                bytes.push(0);
                canonical = false;
            }
            3 => {
                let c = list.len() as u32 + 1;
                bytes[2..6].copy_from_slice(&c.to_be_bytes());
                canonical = false;
            }
            4 if list.len() >= 2 => {
                let c = list.len() as u32 - 1;
                bytes[2..6].copy_from_slice(&c.to_be_bytes());
                canonical = false;
            }
            _ => {}
        }
        n += 1;
        let dec = match guard(|| Poplar1AggregationParam::get_decoded(&bytes)) {
            Ok(r) => r,
            Err(p) => {
                obs.fail(format!("decode-agg-param-{}", panic_sig(&p)), format!("decoding {} panicked: {p}", hex(&bytes)));
                return n;
            }
        };
        let want_dec = want && canonical;
        if dec.is_ok() != want_dec {
            obs.fail(if want_dec { "decoder-refuses-valid" } else { "decoder-accepts-invalid" }, format!("decoding {} (list {list:?}, {}) returned {}", hex(&bytes), if canonical { "canonical" } else { "non-canonical" }, if dec.is_ok() { "Ok" } else { "Err" }));
            return n;
        }
        if !canonical {
            obs.label("decoder:non-canonical-rejected");
        }
        if let Ok(ap) = dec {
            if ap.level() != level || ap.prefixes().iter().map(|p| p.to_bytes()).collect::<Vec<_>>() != list.iter().map(|b| b.bytes.0.clone()).collect::<Vec<_>>() {
                obs.fail("decoder-changes-list", format!("decoding the encoding of {list:?} gives another list"));
            }
        }
    }
    n
}

fn strings_upto3() -> Vec<Bits> {
    let mut v = vec![Bits::from_bools(&[])];
    for len in 1..=3usize {
        for x in 0..(1u32 << len) {
            v.push(Bits::from_bools(&(0..len).map(|b| (x >> (len - 1 - b)) & 1 == 1).collect::<Vec<_>>()));
        }
    }
    v
}

fn history_strategy() -> BoxedStrategy<Case> {
    // structured histories for bits ≤ 64: extensions, one non-extending prefix, equal level after
    // a jump, decreasing level, a parameter that extends the FIRST but not the LAST
    (prop_oneof![3 => 2usize..=64, 1 => 65usize..=140], prop::collection::vec((any::<u16>(), prop::collection::vec((any::<u8>(), any::<u64>()), 1..=5)), 1..=6), any::<u8>(), any::<u64>())
        .prop_map(|(bits, steps, twist, seed)| {
            let mut params: Vec<P> = vec![];
            let mut level = 0usize;
            for (k, (adv, elems)) in steps.iter().enumerate() {
                // mostly increasing levels
                // mostly small steps; sometimes a jump over a word-size number of levels (the gap
                // between consecutive parameters is unconstrained by the rule)
                level = if k == 0 {
                    if adv % 3 == 0 { idx16(*adv, bits.min(4)) } else { idx16(*adv, bits) }
                } else {
                    let gap = match adv % 11 {
                        0 => [7usize, 8, 15, 16, 31, 32, 33, 61, 62, 63, 64, 65, 127, 128][(*adv as usize / 11) % 14],
                        1 => 1 + idx16(*adv, bits),
                        _ => 1 + idx16(*adv, 6),
                    };
                    (level + gap).min(bits - 1)
                };
                let len = level + 1;
                let mut set: Vec<Bits> = vec![];
                for (src, s) in elems {
                    let b = match (params.last(), src % 4) {
                        (Some(prev), 0..=2) => {
                            // extend an element of the previous set
                            let stem = &prev.prefixes[(*s as usize) % prev.prefixes.len()];
                            let ext = Bits::from_seed(s | 2, len).bools();
                            let mut v = stem.bools();
                            if v.len() > len {
                                v.truncate(len);
                            }
                            while v.len() < len {
                                v.push(ext[v.len()]);
                            }
                            Bits::from_bools(&v)
                        }
                        _ => Bits::from_seed(s | 2, len),
                    };
                    set.push(b);
                }
                set.sort_by(|a, b| a.bools().cmp(&b.bools()));
                set.dedup();
                params.push(P { level, prefixes: set });
            }
            let mut cur = params.pop().unwrap();
            let mut prev = params;
            match twist % 8 {
                0 if !prev.is_empty() => {
                    // equal level to the last
                    let l = prev.last().unwrap().level;
                    cur = P { level: l, prefixes: prev.last().unwrap().prefixes.clone() };
                }
                1 if !prev.is_empty() && prev.last().unwrap().level > 0 => {
                    // lower level
                    let l = prev.last().unwrap().level - 1;
                    cur = P { level: l, prefixes: vec![Bits::from_seed(seed | 2, l + 1)] };
                }
                2 if prev.len() >= 2 => {
                    // extends the first parameter but (probably) not the last
                    let first = prev[0].clone();
                    let len = cur.level + 1;
                    let ext = Bits::from_seed(seed | 2, len).bools();
                    let mut v = first.prefixes[0].bools();
                    v.truncate(len);
                    while v.len() < len {
                        v.push(ext[v.len()]);
                    }
                    cur.prefixes = vec![Bits::from_bools(&v)];
                }
                3 => {
                    // one stray prefix among the extending ones
                    cur.prefixes.push(Bits::from_seed(seed | 2, cur.level + 1));
                    cur.prefixes.sort_by(|a, b| a.bools().cmp(&b.bools()));
                    cur.prefixes.dedup();
                }
                4 => prev.clear(),
                _ => {}
            }
            Case::History { cur, prev }
        })
        .boxed()
}

impl Check for C20 {
    type Case = Case;
    const ID: &'static str = "C20";
    fn rule(&self) -> String {
        "(enumerated) the universe of all 273 parameters over ≤ 3 bits (every non-empty prefix set at every level): is_agg_param_valid(cur, prev) for every cur and every history prev of length ≤ 2 (quick: ≤ 1, plus all length-2 histories for a third of the universe), against a reference written from the property text on plain bit vectors; every list of ≤ 4 prefixes of 0..3 bits (repeats, unsorted, mixed lengths; 54 240 lists) through try_from_prefixes, the encoder (against the specified layout) and the decoder, with non-canonical variants (trailing bits, trailing bytes, count ± 1); Prio3/Prio2 single-use rule for histories of length 0..5. (generated) structured histories up to 140 bits, with level gaps from 1 to beyond a machine word (7…128) between consecutive parameters, with twists: equal level, lower level, extension of the first but not the last parameter, one stray prefix; sampled long histories over the small universe. Non-trivial = non-empty history, or a list failing the predicate; enumerated items are distinct by construction".into()
    }
    fn strategy(&self, _tier: Tier) -> BoxedStrategy<Case> {
        let small_hist = (any::<u16>(), prop::collection::vec(any::<u16>(), 2..=5)).prop_map(|(c, h)| {
            let u = universe();
            let cur = u[idx16(c, u.len())].clone();
            let prev: Vec<P> = h.iter().map(|i| u[idx16(*i, u.len())].clone()).collect();
            Case::History { cur, prev }
        });
        let long_list = (prop_oneof![Just(65535usize), Just(65536), Just(65537), 1usize..=200], 1usize..=3, any::<u64>(), any::<u8>()).prop_map(|(len, n, seed, mutate)| {
            let mut l: Vec<Bits> = (0..n).map(|i| Bits::from_seed(seed.wrapping_add(i as u64) | 2, len)).collect();
            l.sort_by(|a, b| a.bools().cmp(&b.bools()));
            l.dedup();
            Case::List { prefixes: l, mutate }
        });
        prop_oneof![5 => history_strategy(), 3 => small_hist, 1 => long_list, 1 => (0usize..=5).prop_map(|prev_len| Case::SingleUse { prev_len })].boxed()
    }
    fn num_cases(&self, tier: Tier) -> u64 {
        tier.pick(60_000, 1_000_000)
    }
    fn enumerate(&self, tier: Tier, shard: usize, nshards: usize, f: &mut dyn FnMut(Case) -> bool) {
        let u = universe().len() as u16;
        let mut i = 0usize;
        let mut emit = |c: Case| -> bool {
            i += 1;
            if i % nshards != shard {
                return true;
            }
            f(c)
        };
        for cur in 0..u {
            // prev = [] and prev = [x] for every x
            if !emit(Case::Small { cur, prev_head: vec![] }) {
                return;
            }
            // prev = [h, x] for every x; all h in thorough, every third in quick
            for h in 0..u {
                if (tier == Tier::Thorough || (h as usize + cur as usize) % 3 == 0) && !emit(Case::Small { cur, prev_head: vec![h] }) {
                    return;
                }
            }
        }
        for a in 0..15u8 {
            for b in 0..16u8 {
                if !emit(Case::ListBlock { first: a, second: b }) {
                    return;
                }
            }
        }
        for prev_len in 0..=5usize {
            if !emit(Case::SingleUse { prev_len }) {
                return;
            }
        }
    }
    fn enumerated_space(&self, tier: Tier) -> Option<String> {
        Some(match tier {
            Tier::Quick => "273 parameters × (empty history + 273 one-element histories + a third of the 273² two-element histories); all 54 240 lists of ≤ 4 prefixes of ≤ 3 bits".into(),
            Tier::Thorough => "273 parameters × all histories of length ≤ 2 (273 + 273² + 273³ evaluations); all 54 240 lists of ≤ 4 prefixes of ≤ 3 bits".into(),
        })
    }
    fn run(&self, case: &Case) -> Outcome {
        let mut obs = Obs::new();
        match case {
            Case::Small { cur, prev_head } => {
                let u = universe();
                let libs: Vec<Poplar1AggregationParam> = u.iter().map(|p| to_lib(p).expect("universe parameter")).collect();
                let c = *cur as usize;
                let mut n = 0u64;
                let head: Vec<usize> = prev_head.iter().map(|x| *x as usize).collect();
                let mut check = |prev_idx: &[usize], obs: &mut Obs| -> bool {
                    let prev_p: Vec<P> = prev_idx.iter().map(|i| u[*i].clone()).collect();
                    let prev_l: Vec<Poplar1AggregationParam> = prev_idx.iter().map(|i| libs[*i].clone()).collect();
                    let want = reference_valid(&u[c], &prev_p);
                    let got = <Pop as Aggregator<32, 16>>::is_agg_param_valid(&libs[c], &prev_l);
                    n += 1;
                    if got != want {
                        obs.fail(if want { "valid-parameter-refused" } else { "invalid-parameter-accepted" }, format!("is_agg_param_valid(cur = {:?}, prev = {:?}) = {got}, the specification says {want}", u[c], prev_p));
                        return false;
                    }
                    true
                };
                if head.is_empty() {
                    if check(&[], &mut obs) {
                        for x in 0..u.len() {
                            if !check(&[x], &mut obs) {
                                break;
                            }
                        }
                    }
                } else {
                    for x in 0..u.len() {
                        let mut h = head.clone();
                        h.push(x);
                        if !check(&h, &mut obs) {
                            break;
                        }
                    }
                }
                obs.evals = n;
                obs.inner_nontrivial = n.saturating_sub(1);
                obs.nt();
                obs.label(format!("small-universe:prev-len={}", prev_head.len() + 1));
            }
            Case::History { cur, prev } => {
                let lc = to_lib(cur);
                let lp: Result<Vec<_>, _> = prev.iter().map(to_lib).collect();
                match (lc, lp) {
                    (Ok(c), Ok(p)) => {
                        let want = reference_valid(cur, prev);
                        let got = <Pop as Aggregator<32, 16>>::is_agg_param_valid(&c, &p);
                        obs.label(format!("history:prev-len={}:{}", prev.len().min(6), if want { "valid" } else { "invalid" }));
                        if !prev.is_empty() {
                            obs.nt();
                            let last = prev.last().unwrap();
                            obs.label(if cur.level <= last.level { "reason:level-not-increasing" } else if want { "reason:extends-last" } else { "reason:prefix-not-extending" });
                        }
                        if got != want {
                            obs.fail(if want { "valid-parameter-refused" } else { "invalid-parameter-accepted" }, format!("is_agg_param_valid(cur = {cur:?}, prev = {prev:?}) = {got}, the specification says {want}"));
                        }
                    }
                    (Err(e), _) | (_, Err(e)) => obs.fail("harness-param", format!("harness built an invalid parameter: {e}")),
                }
            }
            Case::SingleUse { prev_len } => {
                obs.label("single-use");
                if *prev_len > 0 {
                    obs.nt();
                }
                let prev = vec![(); *prev_len];
                let want = *prev_len == 0;
                let p3 = <Prio3<Count<Field64>, XofTurboShake128, 32> as Aggregator<32, 16>>::is_agg_param_valid(&(), &prev);
                let p2 = <Prio2 as Aggregator<32, 16>>::is_agg_param_valid(&(), &prev);
                if p3 != want || p2 != want {
                    obs.fail("single-use-rule", format!("with {prev_len} earlier uses Prio3 says {p3} and Prio2 says {p2}; only the first use is valid"));
                }
            }
            Case::List { prefixes, mutate } => {
                if !list_ok(prefixes) {
                    obs.nt();
                }
                if prefixes.first().map(|b| b.len >= 65535).unwrap_or(false) {
                    obs.label("list:at-size-limit");
                }
                check_list(prefixes, *mutate, &mut obs);
            }
            Case::ListBlock { first, second } => {
                let s = strings_upto3();
                let mut n = 0u64;
                let mut nt = 0u64;
                let a = s[*first as usize % 15].clone();
                // second = 15 means "no second element"
                let mut lists: Vec<Vec<Bits>> = vec![];
                if *second as usize >= 15 {
                    lists.push(vec![a.clone()]);
                } else {
                    let b = s[*second as usize].clone();
                    lists.push(vec![a.clone(), b.clone()]);
                    for c in &s {
                        lists.push(vec![a.clone(), b.clone(), c.clone()]);
                        for d in &s {
                            lists.push(vec![a.clone(), b.clone(), c.clone(), d.clone()]);
                        }
                    }
                }
                for (k, l) in lists.iter().enumerate() {
                    n += check_list(l, (k % 35) as u8, &mut obs);
                    if !list_ok(l) {
                        nt += 1;
                    }
                    if obs.failed() {
                        break;
                    }
                }
                if *first == 0 && *second >= 15 {
                    // the empty list
                    n += check_list(&[], 0, &mut obs);
                }
                obs.evals = n.max(1);
                obs.inner_nontrivial = nt;
                obs.nt();
                obs.labels.retain(|l| !l.starts_with("list:"));
                obs.label("list-block");
            }
        }
        obs.finish()
    }
}
