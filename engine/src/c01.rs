//! C01 — Prio3 end-to-end: honest reports verify and aggregate exactly.

use crate::gen::*;
use crate::harness::*;
use crate::p3::*;
use crate::util::*;
use num_bigint::BigUint;
use num_traits::Zero;
use prio::codec::{Encode, ParameterizedDecode};
use prio::vdaf::prio3::{Prio3, Prio3VerifyState};
use prio::vdaf::xof::Xof;
use proptest::prelude::*;
use serde::{Deserialize, Serialize};

pub struct C01;

#[derive(Clone, Debug, Serialize, Deserialize)]
pub struct Report {
    pub meas: Meas,
    pub nonce_seed: u64,
    pub rand_seed: u64,
}

#[derive(Clone, Debug, Serialize, Deserialize)]
pub struct Case {
    pub cfg: VdafCfg,
    pub ctx: Hex,
    pub key_seed: u64,
    pub reports: Vec<Report>,
}

pub fn case_strategy(lim: Limits, max_reports: usize) -> BoxedStrategy<Case> {
    (
        cfg_strategy(lim),
        ctx_strategy(),
        seed_strategy(),
        prop::collection::vec((any::<u8>(), any::<u64>(), seed_strategy(), seed_strategy()), 0..=max_reports),
    )
        .prop_map(|(cfg, ctx, key_seed, reps)| {
            let reports = reps
                .into_iter()
                .map(|(sel, mseed, nonce_seed, rand_seed)| Report { meas: meas_from(&cfg.inst, sel, mseed), nonce_seed, rand_seed })
                .collect();
            Case { cfg, ctx, key_seed, reports }
        })
        .boxed()
}

struct Run<'a> {
    case: &'a Case,
    obs: &'a mut Obs,
}

impl<'a> VdafVisitor for Run<'a> {
    type Out = ();
    fn visit<T, P>(self, vdaf: Prio3<T, P, 32>, _typ: T)
    where
        T: TypeBridge + 'static,
        T::Field: FieldBig,
        P: Xof<32> + 'static,
    {
        let case = self.case;
        let obs = self.obs;
        let cfg = &case.cfg;
        let n = cfg.n_agg as usize;
        let p = cfg.inst.field().modulus();
        let key: [u8; 32] = arr_from(case.key_seed);
        let mut per_agg: Vec<Vec<Vec<u8>>> = vec![vec![]; n];
        let mut wrapped = false;
        let mut plain_sum = vec![BigUint::zero(); cfg.inst.output_len()];

        macro_rules! bail {
            ($f:expr) => {{
                let f: Fail = $f;
                let sig = match &f {
                    Fail::Err { stage, .. } => format!("honest-{stage}-err"),
                    Fail::Panic { stage, msg, .. } => format!("honest-{stage}-{}", panic_sig(msg)),
                };
                obs.fail(sig, format!("honest execution failed: {}", f.describe()));
                return;
            }};
        }

        for (ri, r) in case.reports.iter().enumerate() {
            let m = T::to_meas(&r.meas);
            let nonce: [u8; 16] = arr_from(r.nonce_seed);
            let rand = bytes_from(r.rand_seed, cfg.rand_len());
            let sh = match shard_wire(&vdaf, &case.ctx.0, &m, &nonce, &rand) {
                Ok(s) => s,
                Err(f) => bail!(f),
            };
            if sh.input_shares.len() != n {
                obs.fail("shard-count", format!("shard produced {} input shares for {n} aggregators", sh.input_shares.len()));
                return;
            }
            let inputs: Vec<AggInput> = (0..n)
                .map(|j| AggInput { agg_id: j, verify_key: key, ctx: case.ctx.0.clone(), nonce, public_share: sh.public_share.clone(), input_share: sh.input_shares[j].clone() })
                .collect();

            // verification with every message through the wire, and the verify state persisted
            // and reloaded between the two steps
            let mut states = vec![];
            let mut shares = vec![];
            for a in &inputs {
                match init_wire(&vdaf, &(), a) {
                    Ok(o) => {
                        let sb = match step("encode_verify_state", a.agg_id, || o.state.get_encoded()) {
                            Ok(b) => b,
                            Err(f) => bail!(f),
                        };
                        if let Some(l) = o.state.encoded_len() {
                            if l != sb.len() {
                                obs.fail("state-encoded-len", format!("verify state advertises {l} bytes, produced {}", sb.len()));
                                return;
                            }
                        }
                        let st2 = match step("decode_verify_state", a.agg_id, || Prio3VerifyState::<T::Field, 32>::get_decoded_with_param(&(&vdaf, a.agg_id), &sb)) {
                            Ok(s) => s,
                            Err(f) => bail!(f),
                        };
                        if st2 != o.state {
                            obs.fail("state-roundtrip", format!("verify state of aggregator {} does not round-trip", a.agg_id));
                            return;
                        }
                        states.push(st2);
                        shares.push(o.verifier_share);
                    }
                    Err(f) => bail!(f),
                }
            }
            let dec_state = &states[(ri + 1) % n];
            let msg = match combine_wire(&vdaf, &case.ctx.0, &(), dec_state, &shares) {
                Ok(m) => m,
                Err(f) => bail!(f),
            };
            let mut outs = vec![];
            for (j, st) in states.into_iter().enumerate() {
                match next_wire(&vdaf, j, &case.ctx.0, &(), st, &msg) {
                    Ok(NextOut::Finish(b)) => outs.push(b),
                    Ok(NextOut::Continue(..)) => {
                        obs.fail("prio3-second-round", "Prio3 verify_next asked for another round");
                        return;
                    }
                    Err(f) => bail!(f),
                }
            }
            // per-report: the output shares sum to the truncation of the documented encoding
            let enc = model_encode(&cfg.inst, &r.meas).expect("generator produced an out-of-range measurement");
            let want = model_truncate(&cfg.inst, &enc);
            let mut got = vec![BigUint::zero(); want.len()];
            for o in &outs {
                let v: Vec<T::Field> = match decode_vec(o) {
                    Some(v) => v,
                    None => {
                        obs.fail("output-share-bytes", "output share is not a vector of canonical field elements");
                        return;
                    }
                };
                if v.len() != want.len() {
                    obs.fail("output-share-len", format!("output share has {} elements, expected {}", v.len(), want.len()));
                    return;
                }
                for (g, x) in got.iter_mut().zip(v) {
                    *g = (&*g + x.to_big()) % &p;
                }
            }
            if got != want {
                obs.fail("report-output-sum", format!("report {ri}: output shares sum to {got:?}, truncated encoding is {want:?}"));
                return;
            }
            for (s, w) in plain_sum.iter_mut().zip(&want) {
                *s += w;
                if *s >= p {
                    wrapped = true;
                }
            }
            for (j, o) in outs.into_iter().enumerate() {
                per_agg[j].push(o);
            }
        }

        let expected = model_aggregate(&cfg.inst, &case.reports.iter().map(|r| r.meas.clone()).collect::<Vec<_>>());
        let res = aggregate_unshard_wire(&vdaf, &(), &per_agg, case.reports.len());
        match (res, &expected) {
            (Err(Fail::Err { stage: "unshard", .. }), ResultBig::Unrepresentable) => obs.label("average-above-u64-refused"),
            (Err(f), _) => bail!(f),
            (Ok(r), exp) => {
                let got = T::result_big(&r);
                let same = match (&got, exp) {
                    (ResultBig::Float(a), ResultBig::Float(b)) => a == b || (a.is_nan() && b.is_nan()),
                    (a, b) => a == b,
                };
                if !same {
                    obs.fail("aggregate-mismatch", format!("unsharded result {got:?} differs from the plain aggregate {exp:?}"));
                    return;
                }
            }
        }
        if wrapped {
            obs.label("sum-wrapped-mod-p");
        }
    }
}

fn on_lattice(inst: &Inst) -> bool {
    let m = match inst {
        Inst::Sum { max, .. } | Inst::Average { max, .. } | Inst::SumVec { max, .. } | Inst::L1 { max, .. } => max.0,
        Inst::Multihot { max_weight, .. } => *max_weight as u128,
        _ => return false,
    };
    let pm1 = inst.field().modulus() - 1u32;
    m.is_power_of_two() || (m + 1).is_power_of_two() || (m > 1 && (m - 1).is_power_of_two()) || BigUint::from(m) == pm1 || BigUint::from(m) + 1u32 == pm1
}

pub fn classify(case: &Case, obs: &mut Obs) {
    let cfg = &case.cfg;
    obs.label(format!("type:{}", cfg.inst.name()));
    obs.label(format!("field:{:?}", cfg.inst.field()));
    obs.label(format!("xof:{:?}", cfg.xof));
    let mut interesting = false;
    if cfg.n_agg >= 3 {
        obs.label("n_agg>=3");
        interesting = true;
    }
    if cfg.n_agg >= 4 {
        obs.label("third-or-later-helper");
    }
    if cfg.n_agg >= 17 {
        obs.label("n_agg>=17");
    }
    if cfg.n_proofs >= 2 {
        obs.label("n_proofs>=2");
        interesting = true;
    }
    if cfg.inst.partial_last_chunk() {
        obs.label("partial-last-chunk");
        interesting = true;
    }
    if let Some(c) = cfg.inst.chunk() {
        if c > cfg.inst.input_len() {
            obs.label("chunk>input_len");
        }
    }
    if on_lattice(&cfg.inst) {
        obs.label("bound-on-edge-lattice");
        interesting = true;
    }
    if cfg.xof != XofKind::Turbo {
        interesting = true;
    }
    if case.reports.is_empty() {
        obs.label("empty-batch");
    }
    if !case.reports.is_empty() && interesting {
        obs.nt();
    }
}

impl Check for C01 {
    type Case = Case;
    const ID: &'static str = "C01";
    fn rule(&self) -> String {
        "proptest-generated (instance on the bound/chunk/aggregator lattice, ctx, key, batch of in-range measurements with sharding randomness and nonce) driven through shard_with_random → wire → verify_init → wire → verifier_shares_to_message → wire → verify_next → wire → aggregate → wire → unshard, compared with a BigUint reference aggregate; non-trivial = at least one report and at least one of: ≥3 aggregators, ≥2 proofs, partial last chunk, bound on the edge lattice, non-TurboSHAKE XOF; distinct by hash of the case".into()
    }
    fn assumptions(&self) -> Vec<String> {
        vec!["sharding randomness, nonces and keys are expanded from 64-bit seeds by a splitmix stream (plus all-zero and all-0xFF)".into()]
    }
    fn strategy(&self, tier: Tier) -> BoxedStrategy<Case> {
        case_strategy(tier.pick(Limits::quick(), Limits::thorough()), 8)
    }
    fn num_cases(&self, tier: Tier) -> u64 {
        tier.pick(3000, 12000)
    }
    fn builtin_corpus(&self) -> Vec<Case> {
        // element counts beyond 2^16 (see gen::wide_cfgs), three reports each incl. extreme buckets
        wide_cfgs()
            .into_iter()
            .enumerate()
            .map(|(i, cfg)| {
                let reports = (0..3u64).map(|k| Report { meas: meas_from(&cfg.inst, [2u8, 7, 1][k as usize], 900 + 31 * i as u64 + k), nonce_seed: 40 + k, rand_seed: 50 + i as u64 * 3 + k }).collect();
                Case { cfg, ctx: Hex(b"wide".to_vec()), key_seed: 77 + i as u64, reports }
            })
            .collect()
    }
    fn run(&self, case: &Case) -> Outcome {
        let mut obs = Obs::new();
        classify(case, &mut obs);
        match with_vdaf(&case.cfg, Run { case, obs: &mut obs }) {
            Ok(()) => {}
            Err(e) => obs.fail("constructor-refused-admissible-parameters", format!("constructor refused {:?}: {e}", case.cfg)),
        }
        obs.finish()
    }
}
