//! C19 — Prio2 (full check added below); `harvest` feeds C07.

use crate::codec::Spec;
use crate::gen::arr_from;
use crate::p3::{combine_wire, init_wire, next_wire, AggInput, NextOut};
use crate::util::*;
use prio::codec::Encode;
use prio::vdaf::prio2::Prio2;
use prio::vdaf::Client;

/// Honest Prio2 run; returns every wire message.
pub fn harvest(len: usize, seed: u64) -> Vec<(Spec, Vec<u8>)> {
    let mut out = vec![];
    let Ok(vdaf) = Prio2::new(len) else { return out };
    let bits = expand(seed, 1, len);
    let meas: Vec<u32> = bits.iter().map(|b| (b & 1) as u32).collect();
    let nonce: [u8; 16] = arr_from(seed ^ 0x77);
    let key: [u8; 32] = arr_from(seed ^ 0x99);
    let Ok(((), shares)) = vdaf.shard(b"", &meas, &nonce) else { return out };
    let mut inputs = vec![];
    for (j, s) in shares.iter().enumerate() {
        let Ok(b) = s.get_encoded() else { return out };
        out.push((Spec::Prio2Input { len, agg: j }, b.clone()));
        inputs.push(AggInput::<32> { agg_id: j, verify_key: key, ctx: vec![], nonce, public_share: vec![], input_share: b });
    }
    let mut states = vec![];
    let mut vshares = vec![];
    for a in &inputs {
        let Ok(o) = init_wire(&vdaf, &(), a) else { return out };
        if let Ok(b) = o.state.get_encoded() {
            out.push((Spec::Prio2State { len, agg: a.agg_id }, b.clone()));
            out.push((Spec::Prio2Continuation { len, agg: a.agg_id }, b));
        }
        out.push((Spec::Prio2VerifierShare, o.verifier_share.clone()));
        states.push(o.state);
        vshares.push(o.verifier_share);
    }
    let Ok(msg) = combine_wire(&vdaf, b"", &(), &states[0], &vshares) else { return out };
    for (j, st) in states.into_iter().enumerate() {
        if let Ok(NextOut::Finish(b)) = next_wire(&vdaf, j, b"", &(), st, &msg) {
            out.push((Spec::Prio2Output { len }, b.clone()));
            out.push((Spec::Prio2Agg { len }, b));
        }
    }
    out
}

// ------------------------------------------------------------------------------------------------
// The check

use crate::harness::*;
use hmac::{Hmac, KeyInit, Mac};
use prio::field::FieldPrio2;
use prio::vdaf::xof::SeedStreamAes128;
use prio::vdaf::{Aggregator, Share};
use crate::p3::aggregate_unshard_wire;
use proptest::prelude::*;
use rand_core::Rng;
use serde::{Deserialize, Serialize};
use sha2::Sha256;

pub struct C19;

const P: u64 = 4293918721;

#[derive(Clone, Debug, Serialize, Deserialize)]
pub enum Alter {
    None,
    /// leader share element `idx` += delta (non-zero)
    LeaderElem { idx: u16, delta: u32 },
    /// flip a bit of the helper seed
    HelperSeed { bit: u8 },
    /// verifier share of aggregator `agg`, element `elem` (f_r, g_r, h_r) += delta
    VerifierShare { agg: u8, elem: u8, delta: u32 },
}

#[derive(Clone, Debug, Serialize, Deserialize)]
pub enum Case {
    /// a batch of reports: 0/1 vectors or vectors with one non-binary entry, optionally altered
    Batch { len: usize, key_seed: u64, reports: Vec<(u64, Option<(u16, u32)>, Alter)> },
    /// every element of the leader share altered in turn
    Sweep { len: usize, seed: u64 },
    /// search a nonce whose first query-point candidate is an interpolation node, then check that
    /// the aggregators skip it
    RootNonce { len: usize, key_seed: u64, start: u64, budget: u64 },
}

fn pow_mod(mut b: u64, mut e: u64) -> u64 {
    let mut r = 1u64;
    b %= P;
    while e > 0 {
        if e & 1 == 1 {
            r = r * b % P;
        }
        b = b * b % P;
        e >>= 1;
    }
    r
}

/// The documented derivation of the query point: HMAC-SHA256(key, nonce) → (AES key, IV) → CTR
/// stream → successive little-endian 32-bit candidates, discarded when ≥ p or when a 2n-th root of
/// unity. Returns (candidates looked at, chosen).
fn model_query_point(key: &[u8; 32], nonce: &[u8; 16], len: usize) -> (Vec<u64>, u64) {
    let mut mac = Hmac::<Sha256>::new_from_slice(key).unwrap();
    mac.update(nonce);
    let tag = mac.finalize().into_bytes();
    let k: [u8; 16] = tag[..16].try_into().unwrap();
    let iv: [u8; 16] = tag[16..].try_into().unwrap();
    let mut stream = SeedStreamAes128::new(&k, &iv);
    let two_n = 2 * (len + 1).next_power_of_two() as u64;
    let mut seen = vec![];
    loop {
        let mut b = [0u8; 4];
        stream.fill_bytes(&mut b);
        let v = u32::from_le_bytes(b) as u64;
        if v >= P {
            continue;
        }
        seen.push(v);
        if pow_mod(v, two_n) != 1 {
            return (seen, v);
        }
    }
}

struct Verified {
    outs: Option<Vec<Vec<FieldPrio2>>>,
    why: String,
}

/// Run verification of one (possibly altered) report; every message through its encoding.
fn verify(vdaf: &Prio2, len: usize, key: &[u8; 32], nonce: &[u8; 16], shares: &[Share<FieldPrio2, 32>], alter: &Alter, obs: &mut Obs) -> Option<Verified> {
    let mut bytes: Vec<Vec<u8>> = shares.iter().map(|s| s.get_encoded().unwrap()).collect();
    match alter {
        Alter::LeaderElem { idx, delta } => {
            let n = bytes[0].len() / 4;
            let i = idx16(*idx, n);
            let cur = u32::from_le_bytes(bytes[0][4 * i..4 * i + 4].try_into().unwrap()) as u64;
            let d = (*delta as u64 % (P - 1)) + 1;
            let nv = ((cur + d) % P) as u32;
            bytes[0][4 * i..4 * i + 4].copy_from_slice(&nv.to_le_bytes());
        }
        Alter::HelperSeed { bit } => {
            let i = *bit as usize % 256;
            bytes[1][i / 8] ^= 1 << (i % 8);
        }
        _ => {}
    }
    let mut states = vec![];
    let mut vshares = vec![];
    for j in 0..2 {
        let a = AggInput::<32> { agg_id: j, verify_key: *key, ctx: vec![], nonce: *nonce, public_share: vec![], input_share: bytes[j].clone() };
        match init_wire(vdaf, &(), &a) {
            Ok(o) => {
                states.push(o.state);
                vshares.push(o.verifier_share);
            }
            Err(f) if f.is_panic() => {
                obs.fail(format!("prio2-{}-{}", f.stage(), panic_sig(&f.describe())), format!("Prio2 verification panicked: {}", f.describe()));
                return None;
            }
            Err(f) => return Some(Verified { outs: None, why: f.describe() }),
        }
    }
    if let Alter::VerifierShare { agg, elem, delta } = alter {
        let j = *agg as usize % 2;
        let e = *elem as usize % 3;
        let cur = u32::from_le_bytes(vshares[j][4 * e..4 * e + 4].try_into().unwrap()) as u64;
        let d = (*delta as u64 % (P - 1)) + 1;
        vshares[j][4 * e..4 * e + 4].copy_from_slice(&(((cur + d) % P) as u32).to_le_bytes());
    }
    let msg = match combine_wire(vdaf, b"", &(), &states[1], &vshares) {
        Ok(m) => m,
        Err(f) if f.is_panic() => {
            obs.fail(format!("prio2-{}-{}", f.stage(), panic_sig(&f.describe())), format!("Prio2 verification panicked: {}", f.describe()));
            return None;
        }
        Err(f) => return Some(Verified { outs: None, why: f.describe() }),
    };
    let mut outs = vec![];
    for (j, st) in states.into_iter().enumerate() {
        match next_wire(vdaf, j, b"", &(), st, &msg) {
            Ok(NextOut::Finish(b)) => match decode_vec::<FieldPrio2>(&b) {
                Some(v) => outs.push(v),
                None => {
                    obs.fail("prio2-output-share-bytes", "output share is not a vector of canonical elements");
                    return None;
                }
            },
            Ok(_) => return Some(Verified { outs: None, why: "extra round".into() }),
            Err(f) if f.is_panic() => {
                obs.fail(format!("prio2-{}-{}", f.stage(), panic_sig(&f.describe())), format!("Prio2 verification panicked: {}", f.describe()));
                return None;
            }
            Err(f) => return Some(Verified { outs: None, why: f.describe() }),
        }
    }
    let _ = len;
    Some(Verified { outs: Some(outs), why: String::new() })
}

fn measurement(len: usize, seed: u64, bad: &Option<(u16, u32)>) -> Vec<u32> {
    let mut m: Vec<u32> = match seed % 5 {
        0 => vec![0; len],
        1 => vec![1; len],
        _ => expand(seed, 1, len).iter().map(|b| (b & 1) as u32).collect(),
    };
    if let Some((pos, val)) = bad {
        if len > 0 {
            let i = idx16(*pos, len);
            m[i] = match val % 5 {
                0 => 2,
                1 => 3,
                2 => (P - 1) as u32,
                3 => ((P + 1) / 2) as u32,
                _ => 2 + val % (P as u32 - 3),
            };
        }
    }
    m
}

fn len_strategy(max: usize) -> BoxedStrategy<usize> {
    let mut edges = vec![];
    let mut k = 2usize;
    while k <= max {
        edges.extend([k - 2, k - 1, k]);
        k *= 2;
    }
    edges.retain(|x| *x >= 1 && *x <= max);
    prop_oneof![3 => 1usize..=max.min(70), 3 => proptest::sample::select(edges), 1 => 1usize..=max].boxed()
}

impl Check for C19 {
    type Case = Case;
    const ID: &'static str = "C19";
    fn rule(&self) -> String {
        "proptest-generated: input length (weighted towards 2^k−2, 2^k−1, 2^k, where the proof packing changes shape; ≤ 70 quick, ≤ 4096 thorough), batches of 0/1 vectors, vectors with one non-binary entry (2, 3, p−1, (p+1)/2, random), alterations of a generated element of the leader share, of the helper seed, of a verifier share; key and nonce. Oracle: unaltered 0/1 ⇒ both aggregators accept and the aggregate is the element-wise sum; anything else ⇒ rejected (reported only after 4 independent keys accept); in every run the aggregators' verifier shares equal those of verify_init_with_query_rand at the query point recomputed from the documented derivation (HMAC-SHA256 → AES-CTR → first candidate that is not a 2n-th root of unity), which therefore is never an interpolation node; nonces whose first candidate IS a node are found by search so that the rejection loop is exercised; every element of the leader share is swept for small lengths. Non-trivial = non-binary or altered report, a length within one of a power of two, or a constructed-nonce case; distinct by case hash (sharding randomness comes from the OS and does not affect verdicts)".into()
    }
    fn assumptions(&self) -> Vec<String> {
        vec!["Prio2::shard draws its randomness from the OS; verdicts depend on it only through the soundness error (≤ 2n/2^32 per attempt, 4 attempts)".into()]
    }
    fn strategy(&self, tier: Tier) -> BoxedStrategy<Case> {
        let maxlen = tier.pick(70usize, 4096);
        let alter = prop_oneof![
            4 => Just(Alter::None),
            3 => (any::<u16>(), any::<u32>()).prop_map(|(idx, delta)| Alter::LeaderElem { idx, delta }),
            1 => any::<u8>().prop_map(|bit| Alter::HelperSeed { bit }),
            2 => (any::<u8>(), any::<u8>(), any::<u32>()).prop_map(|(agg, elem, delta)| Alter::VerifierShare { agg, elem, delta }),
        ];
        let report = (any::<u64>(), prop::option::weighted(0.3, (any::<u16>(), any::<u32>())), alter);
        let batch = (len_strategy(maxlen), any::<u64>(), prop::collection::vec(report, 1..=5)).prop_map(|(len, key_seed, reports)| Case::Batch { len, key_seed, reports });
        let sweep = (1usize..=12, any::<u64>()).prop_map(|(len, seed)| Case::Sweep { len, seed });
        prop_oneof![8 => batch, 1 => sweep].boxed()
    }
    fn num_cases(&self, tier: Tier) -> u64 {
        tier.pick(150_000, 3_000_000)
    }
    fn builtin_corpus(&self) -> Vec<Case> {
        // the top of the supported range: the largest length (NTT of 2^20 points), the first
        // length that needs it, and the neighbours of the 2^16 element count
        [(1usize << 19) - 1, 1 << 18, (1 << 18) - 1, 65_535, 65_536, 65_537]
            .iter()
            .enumerate()
            .map(|(i, len)| Case::Batch { len: *len, key_seed: 11 + i as u64, reports: vec![(5 + i as u64, None, Alter::None), (9 + i as u64, Some((7, 2)), Alter::None)] })
            .collect()
    }
    fn enumerate(&self, tier: Tier, shard: usize, nshards: usize, f: &mut dyn FnMut(Case) -> bool) {
        // constructed nonces: the larger the domain, the cheaper the search (2n / 2^32 per nonce)
        let n = tier.pick(4usize, 32);
        for i in 0..n {
            if i % nshards == shard {
                // powers of two first: there the node count is (len + 1).next_power_of_two(), twice
                // what a computation from len alone gives, and only a *primitive* 2n-th root tells
                // the two apart (the search below asks for one when len is a power of two)
                let len = [2048usize, 1024, 4096, 2000, 512, 1023, 1500, 4000][i % 8];
                if !f(Case::RootNonce { len, key_seed: 1000 + i as u64, start: (i as u64) << 40, budget: 40_000_000 }) {
                    return;
                }
            }
        }
    }
    fn enumerated_space(&self, tier: Tier) -> Option<String> {
        Some(format!("{} searches for a nonce whose first query-point candidate is an interpolation node (not a complete enumeration of a space; counted as generated evidence)", tier.pick(4, 32)))
    }
    fn case_timeout_s(&self, tier: Tier) -> u64 {
        tier.pick(600, 3600)
    }
    fn run(&self, case: &Case) -> Outcome {
        let mut obs = Obs::new();
        match case {
            Case::Batch { len, key_seed, reports } => {
                let len = *len;
                let vdaf = match Prio2::new(len) {
                    Ok(v) => v,
                    Err(e) => {
                        obs.fail("prio2-ctor", format!("Prio2::new({len}) refused: {e}"));
                        return obs.finish();
                    }
                };
                if (len + 1).is_power_of_two() || (len + 2).is_power_of_two() || len.is_power_of_two() {
                    obs.label("length-near-power-of-two");
                    obs.nt();
                }
                let key: [u8; 32] = crate::gen::arr_from(*key_seed | 2);
                let mut sums = vec![0u64; len];
                let mut agg_in: Vec<Vec<Vec<u8>>> = vec![vec![], vec![]];
                let mut accepted = 0usize;
                for (ri, (mseed, bad, alter)) in reports.iter().enumerate() {
                    let meas = measurement(len, *mseed, bad);
                    let nonce: [u8; 16] = crate::gen::arr_from(mseed ^ 0x5151 | 2);
                    let shares = match guard(|| vdaf.shard(b"", &meas, &nonce)) {
                        Ok(Ok(((), s))) => s,
                        Ok(Err(e)) => {
                            obs.fail("prio2-shard-err", format!("Prio2({len}).shard refused a vector of the right length: {e}"));
                            return obs.finish();
                        }
                        Err(p) => {
                            obs.fail(format!("prio2-shard-{}", panic_sig(&p)), format!("Prio2({len}).shard panicked: {p}"));
                            return obs.finish();
                        }
                    };
                    // query point: the trait path equals the explicit-query-point path at the model's point
                    let (seen, r) = model_query_point(&key, &nonce, len);
                    if seen.len() > 1 {
                        obs.label("query-point-candidate-skipped");
                    }
                    for (j, s) in shares.iter().enumerate() {
                        let a = vdaf.verify_init(&key, b"", j, &(), &nonce, &(), s);
                        let b = vdaf.verify_init_with_query_rand(FieldPrio2::from_u128(r as u128), s, j == 0);
                        match (a, b) {
                            (Ok((_, va)), Ok((_, vb))) => {
                                if va.get_encoded().ok() != vb.get_encoded().ok() {
                                    obs.fail("query-point-derivation", format!("verify_init's verifier share differs from verify_init_with_query_rand at the documented query point {r} (candidates {seen:?})"));
                                    return obs.finish();
                                }
                            }
                            _ => {
                                obs.fail("verify-init-honest-err", "verify_init failed on an honestly sharded report");
                                return obs.finish();
                            }
                        }
                    }
                    let honest = bad.is_none() && matches!(alter, Alter::None);
                    if !honest {
                        obs.nt();
                        obs.label(match (bad.is_some(), alter) {
                            (true, Alter::None) => "non-binary-vector",
                            (_, Alter::LeaderElem { .. }) => "altered-leader-element",
                            (_, Alter::HelperSeed { .. }) => "altered-helper-seed",
                            (_, Alter::VerifierShare { .. }) => "altered-verifier-share",
                            _ => "other",
                        });
                    }
                    let v = match verify(&vdaf, len, &key, &nonce, &shares, alter, &mut obs) {
                        Some(v) => v,
                        None => return obs.finish(),
                    };
                    match (v.outs, honest) {
                        (Some(outs), true) => {
                            accepted += 1;
                            for i in 0..len {
                                let s = (outs[0][i].to_big() + outs[1][i].to_big()) % num_bigint::BigUint::from(P);
                                if s != num_bigint::BigUint::from(meas[i]) {
                                    obs.fail("prio2-output-sum", format!("report {ri}: output shares sum to {s} at position {i}, the measurement is {}", meas[i]));
                                    return obs.finish();
                                }
                                sums[i] += meas[i] as u64;
                            }
                            for j in 0..2 {
                                agg_in[j].push(encode_vec(&outs[j]));
                            }
                        }
                        (None, true) => {
                            obs.fail("prio2-honest-rejected", format!("report {ri}: an honestly sharded 0/1 vector of length {len} was rejected: {}", v.why));
                            return obs.finish();
                        }
                        (None, false) => obs.label("rejected-as-expected"),
                        (Some(_), false) => {
                            // re-test under three fresh keys
                            let mut all = true;
                            for k in 1..=3u64 {
                                obs.label("soundness-retest");
                                let key2: [u8; 32] = crate::gen::arr_from(key_seed.wrapping_mul(31).wrapping_add(k * 7907) | 2);
                                match verify(&vdaf, len, &key2, &nonce, &shares, alter, &mut obs) {
                                    Some(Verified { outs: Some(_), .. }) => {}
                                    _ => {
                                        all = false;
                                        break;
                                    }
                                }
                            }
                            if all {
                                obs.fail("prio2-invalid-accepted", format!("report {ri} of length {len} ({}) was accepted under 4 independent verification keys", if bad.is_some() { "a vector with a non-binary entry" } else { "an altered share" }));
                                return obs.finish();
                            }
                            obs.label("soundness-fluke");
                        }
                    }
                }
                if accepted > 0 {
                    match aggregate_unshard_wire(&vdaf, &(), &agg_in, accepted) {
                        Ok(r) => {
                            let want: Vec<u32> = sums.iter().map(|s| (*s % P) as u32).collect();
                            if r != want {
                                obs.fail("prio2-aggregate", format!("aggregate {r:?} differs from the element-wise sum {want:?}"));
                            }
                        }
                        Err(f) => obs.fail("prio2-aggregate-err", format!("aggregation of accepted reports failed: {}", f.describe())),
                    }
                }
            }
            Case::Sweep { len, seed } => {
                obs.nt();
                obs.label("leader-share-sweep");
                let len = *len;
                let Ok(vdaf) = Prio2::new(len) else { return obs.finish() };
                let key: [u8; 32] = crate::gen::arr_from(*seed | 2);
                let nonce: [u8; 16] = crate::gen::arr_from(seed ^ 0x77 | 2);
                let meas = measurement(len, *seed, &None);
                let Ok(((), shares)) = vdaf.shard(b"", &meas, &nonce) else {
                    obs.fail("prio2-shard-err", "shard failed");
                    return obs.finish();
                };
                let n = crate::codec::prio2_proof_length(len);
                obs.evals = n as u64;
                for i in 0..n {
                    // address element i exactly
                    let idx = (((i as u64) << 16).div_ceil(n as u64)) as u16;
                    let alter = Alter::LeaderElem { idx, delta: 1 + (seed.wrapping_add(i as u64) % 1000) as u32 };
                    let mut accepted_all = true;
                    for k in 0..4u64 {
                        let key2: [u8; 32] = if k == 0 { key } else { crate::gen::arr_from(seed.wrapping_mul(131).wrapping_add(k * 104729) | 2) };
                        match verify(&vdaf, len, &key2, &nonce, &shares, &alter, &mut obs) {
                            Some(Verified { outs: Some(_), .. }) => {}
                            Some(_) => {
                                accepted_all = false;
                                break;
                            }
                            None => return obs.finish(),
                        }
                    }
                    if accepted_all {
                        let part = if i < len { "data" } else if i < len + 3 { "f(0)/g(0)/h(0)" } else { "packed points of h" };
                        obs.fail("prio2-altered-element-accepted", format!("length {len}: the leader share with element {i} ({part}) altered was accepted under 4 independent keys"));
                        return obs.finish();
                    }
                }
            }
            Case::RootNonce { len, key_seed, start, budget } => {
                obs.label("constructed-nonce-search");
                let len = *len;
                let Ok(vdaf) = Prio2::new(len) else { return obs.finish() };
                let key: [u8; 32] = crate::gen::arr_from(*key_seed | 2);
                let two_n = 2 * (len + 1).next_power_of_two() as u64;
                let mut found = None;
                for c in 0..*budget {
                    let mut nonce = [0u8; 16];
                    nonce[..8].copy_from_slice(&(start + c).to_le_bytes());
                    // first candidate only (cheap): HMAC → AES block 0 → first 4 bytes
                    let mut mac = Hmac::<Sha256>::new_from_slice(&key).unwrap();
                    mac.update(&nonce);
                    let tag = mac.finalize().into_bytes();
                    let k: [u8; 16] = tag[..16].try_into().unwrap();
                    let iv: [u8; 16] = tag[16..].try_into().unwrap();
                    let mut stream = SeedStreamAes128::new(&k, &iv);
                    let mut b = [0u8; 4];
                    stream.fill_bytes(&mut b);
                    let v = u32::from_le_bytes(b) as u64;
                    let hit = if len.is_power_of_two() { pow_mod(v, two_n / 2) == P - 1 } else { pow_mod(v, two_n) == 1 };
                    if v < P && hit {
                        found = Some(nonce);
                        break;
                    }
                }
                let Some(nonce) = found else {
                    obs.label("constructed-nonce-not-found-within-budget");
                    return obs.finish();
                };
                obs.nt();
                obs.label("constructed-nonce-found");
                let (seen, r) = model_query_point(&key, &nonce, len);
                let meas = measurement(len, *key_seed, &None);
                let Ok(((), shares)) = vdaf.shard(b"", &meas, &nonce) else {
                    obs.fail("prio2-shard-err", "shard failed");
                    return obs.finish();
                };
                for (j, s) in shares.iter().enumerate() {
                    let a = vdaf.verify_init(&key, b"", j, &(), &nonce, &(), s);
                    let good = vdaf.verify_init_with_query_rand(FieldPrio2::from_u128(r as u128), s, j == 0);
                    let node = vdaf.verify_init_with_query_rand(FieldPrio2::from_u128(seen[0] as u128), s, j == 0);
                    match (a, good, node) {
                        (Ok((_, va)), Ok((_, vg)), Ok((_, vn))) => {
                            let (va, vg, vn) = (va.get_encoded().unwrap(), vg.get_encoded().unwrap(), vn.get_encoded().unwrap());
                            if va == vn && va != vg {
                                obs.fail("query-point-is-interpolation-node", format!("for this nonce the first candidate {} is a {two_n}-th root of unity and the aggregators evaluate the proof there", seen[0]));
                                return obs.finish();
                            }
                            if va != vg {
                                obs.fail("query-point-derivation", format!("verify_init's verifier share differs from the one at the documented query point {r} (candidates {seen:?})"));
                                return obs.finish();
                            }
                        }
                        _ => {
                            obs.fail("verify-init-honest-err", "verify_init failed on an honestly sharded report");
                            return obs.finish();
                        }
                    }
                }
                // and the report still verifies end to end
                match verify(&vdaf, len, &key, &nonce, &shares, &Alter::None, &mut obs) {
                    Some(Verified { outs: Some(_), .. }) => {}
                    Some(v) => obs.fail("prio2-honest-rejected", format!("an honest report with a constructed nonce was rejected: {}", v.why)),
                    None => {}
                }
            }
        }
        obs.finish()
    }
}
