//! C14 — multithreaded gadget evaluation is bit-identical to serial.

use crate::gen::*;
use crate::harness::*;
use crate::p3::*;
use crate::util::*;
use num_bigint::BigUint;
use prio::field::{Field128, Field64};
use prio::flp::gadgets::{Mul, ParallelSum, ParallelSumGadget, ParallelSumMultithreaded};
use prio::flp::Gadget;
use prio::vdaf::prio3::Prio3;
use prio::vdaf::xof::Xof;
use proptest::prelude::*;
use serde::{Deserialize, Serialize};

pub struct C14;

#[derive(Clone, Debug, Serialize, Deserialize)]
pub enum Case {
    /// whole-VDAF comparison under a pool of `threads` threads
    Vdaf { cfg: VdafCfg, ctx: Hex, key_seed: u64, nonce_seed: u64, rand_seed: u64, meas: Meas, threads: usize, reps: usize, contended: bool },
    /// gadget level: eval_poly / eval of the two gadgets on arbitrary wire polynomials
    Gadget { f128: bool, calls: usize, chunks: usize, seed: u64, threads: usize },
    /// the shipped convenience constructors: `Prio3::new_<type>_multithreaded` against `new_<type>`
    Ctor { kind: u8, n_agg: u8, len: usize, chunk: usize, p: u64, seed: u64, threads: usize },
}

/// Everything observable of one honest execution, as bytes.
struct Collect<'a> {
    ctx: &'a [u8],
    key_seed: u64,
    nonce_seed: u64,
    rand_seed: u64,
    meas: &'a Meas,
    cfg: &'a VdafCfg,
}

impl<'a> VdafVisitor for Collect<'a> {
    type Out = Result<Vec<Vec<u8>>, String>;
    fn visit<T, P>(self, vdaf: Prio3<T, P, 32>, _typ: T) -> Self::Out
    where
        T: TypeBridge + 'static,
        T::Field: FieldBig,
        P: Xof<32> + 'static,
    {
        let n = self.cfg.n_agg as usize;
        let key: [u8; 32] = arr_from(self.key_seed);
        let nonce: [u8; 16] = arr_from(self.nonce_seed);
        let rand = bytes_from(self.rand_seed, self.cfg.rand_len());
        let mut out = vec![];
        let sh = shard_wire(&vdaf, self.ctx, &T::to_meas(self.meas), &nonce, &rand).map_err(|f| f.describe())?;
        out.push(sh.public_share.clone());
        out.extend(sh.input_shares.iter().cloned());
        let mut states = vec![];
        let mut shares = vec![];
        for j in 0..n {
            let a = AggInput { agg_id: j, verify_key: key, ctx: self.ctx.to_vec(), nonce, public_share: sh.public_share.clone(), input_share: sh.input_shares[j].clone() };
            let o = init_wire(&vdaf, &(), &a).map_err(|f| f.describe())?;
            out.push(o.verifier_share.clone());
            states.push(o.state);
            shares.push(o.verifier_share);
        }
        let msg = combine_wire(&vdaf, self.ctx, &(), &states[0], &shares).map_err(|f| f.describe())?;
        out.push(msg.clone());
        let mut per_agg = vec![];
        for (j, st) in states.into_iter().enumerate() {
            match next_wire(&vdaf, j, self.ctx, &(), st, &msg).map_err(|f| f.describe())? {
                NextOut::Finish(b) => {
                    out.push(b.clone());
                    per_agg.push(vec![b]);
                }
                NextOut::Continue(..) => return Err("unexpected round".into()),
            }
        }
        let r = aggregate_unshard_wire(&vdaf, &(), &per_agg, 1).map_err(|f| f.describe())?;
        out.push(format!("{:?}", T::result_big(&r)).into_bytes());
        Ok(out)
    }
}

fn with_mt(cfg: &VdafCfg, mt: bool) -> VdafCfg {
    let mut c = cfg.clone();
    c.inst = match c.inst {
        Inst::SumVec { f, max, len, chunk, .. } => Inst::SumVec { f, max, len, chunk, mt },
        Inst::Histogram { f, len, chunk, .. } => Inst::Histogram { f, len, chunk, mt },
        Inst::Multihot { f, len, max_weight, chunk, .. } => Inst::Multihot { f, len, max_weight, chunk, mt },
        other => other,
    };
    c
}

fn gadget_generic<F: FieldBig + prio::field::NttFriendlyFieldElement + Send + Sync>(calls: usize, chunks: usize, seed: u64, obs: &mut Obs) {
    let n = (1 + calls).next_power_of_two();
    let arity = 2 * chunks;
    let inp: Vec<Vec<F>> = (0..arity).map(|w| (0..n).map(|i| if seed % 7 == 0 && w % 3 == 0 { F::zero() } else { F::from_big(&BigUint::from_bytes_le(&expand(seed, (w * n + i) as u64, 40))) }).collect()).collect();
    let outlen = (2 * (n - 1) + 1).next_power_of_two();
    let serial = ParallelSum::<F, Mul>::new(Mul::new(calls), chunks);
    let multi = ParallelSumMultithreaded::<F, Mul>::new(Mul::new(calls), chunks);
    // dirty output buffers: both must overwrite them completely
    let mut o1 = vec![F::one(); outlen];
    let mut o2 = vec![F::from_u128(77); outlen];
    let r1 = guard(|| serial.eval_poly(&mut o1, &inp));
    let r2 = guard(|| multi.eval_poly(&mut o2, &inp));
    match (r1, r2) {
        (Ok(Ok(())), Ok(Ok(()))) => {
            if o1 != o2 {
                let i = o1.iter().zip(&o2).position(|(a, b)| a != b).unwrap();
                obs.fail("gadget-eval-poly-differs", format!("ParallelSumMultithreaded::eval_poly differs from ParallelSum::eval_poly at coefficient {i} (calls {calls}, chunks {chunks})"));
                return;
            }
        }
        (Ok(Err(a)), Ok(Err(_))) => {
            let _ = a;
            obs.label("gadget-both-refuse");
        }
        (Err(p), _) | (_, Err(p)) => {
            obs.fail(format!("gadget-eval-poly-{}", panic_sig(&p)), format!("eval_poly panicked: {p}"));
            return;
        }
        _ => {
            obs.fail("gadget-eval-poly-one-refuses", "one of the two gadgets refuses arguments the other accepts");
            return;
        }
    }
    // eval on a point
    let pt: Vec<F> = (0..arity).map(|w| F::from_big(&BigUint::from_bytes_le(&expand(seed ^ 0xabc, w as u64, 40)))).collect();
    let mut s = serial.clone();
    let mut m = multi.clone();
    match (s.eval(&pt), m.eval(&pt)) {
        (Ok(a), Ok(b)) if a == b => {}
        _ => obs.fail("gadget-eval-differs", "eval of the two gadgets differs"),
    }
    if s.arity() != m.arity() || Gadget::<F>::degree(&s) != Gadget::<F>::degree(&m) || Gadget::<F>::calls(&s) != Gadget::<F>::calls(&m) {
        obs.fail("gadget-shape-differs", "arity/degree/calls differ between the serial and multithreaded gadget");
    }
}

impl Check for C14 {
    type Case = Case;
    const ID: &'static str = "C14";
    fn rule(&self) -> String {
        "proptest-generated: type ∈ {SumVec, Histogram, MultihotCountVec} over both fields with chunk counts of 1, fewer than, around and far above the pool size; measurement, nonce, randomness; a per-case rayon pool of 1..32 threads, 1..8 repetitions, optionally run concurrently on the same pool to perturb work stealing. Oracle (differential): encoded public share, every input share, every verifier share, verifier message, output shares and the result of the ParallelSumMultithreaded instantiation equal those of the serial ParallelSum instantiation byte for byte; at gadget level eval_poly/eval of the two gadgets agree on arbitrary wire polynomials with dirty output buffers; the shipped constructors Prio3::new_{sum_vec,histogram,multihot_count_vec}_multithreaded give the same transcript as their serial counterparts. Non-trivial = pool size ≥ 2 and ≥ 2 chunks; distinct by case hash. Limit: pool size, load and repetition are controlled, rayon's stealing decisions are not enumerated".into()
    }
    fn assumptions(&self) -> Vec<String> {
        vec!["schedules are perturbed (pool size × chunk count × contention × repetition), not enumerated; a violation needs a structural defect (non-zero fold identity, dropped chunk, stale partial buffer), which shows for every schedule or as soon as a worker takes ≠ 1 chunks".into()]
    }
    fn strategy(&self, tier: Tier) -> BoxedStrategy<Case> {
        let mut lim = Limits::small();
        lim.max_input_len = tier.pick(400, 1200);
        lim.big_aggs = false;
        let vd = (
            (2u8..=4, any::<u8>(), any::<u64>(), any::<u16>(), any::<u8>(), any::<u16>(), any::<bool>(), any::<u8>()),
            ctx_strategy(),
            (any::<u64>(), seed_strategy(), seed_strategy(), any::<u8>(), any::<u64>()),
            (prop_oneof![3 => 1usize..=4, 3 => 5usize..=16, 1 => 17usize..=32], 1usize..=8, any::<bool>()),
        )
            .prop_map(move |((n_agg, kind, rnd, len, chunksel, chunkrnd, generic, wsel), ctx, (key_seed, nonce_seed, rand_seed, msel, mseed), (threads, reps, contended))| {
                let raw = InstRaw { kind: 3 + kind % 3, generic, maxsel: (rnd % 5) as u8, k: (rnd >> 8) as u8 % 6, rnd, len, chunksel, chunkrnd, wsel };
                let inst = inst_from(&raw, &lim);
                let cfg = VdafCfg { alg_id: inst.default_alg_id(), inst, xof: XofKind::Turbo, n_agg, n_proofs: 1 };
                let meas = meas_from(&cfg.inst, msel, mseed);
                Case::Vdaf { cfg, ctx, key_seed, nonce_seed, rand_seed, meas, threads, reps, contended }
            });
        let gd = (any::<bool>(), prop_oneof![Just(1usize), 1usize..=40], prop_oneof![Just(1usize), 1usize..=70], any::<u64>(), 1usize..=32).prop_map(|(f128, calls, chunks, seed, threads)| Case::Gadget { f128, calls, chunks, seed, threads });
        let maxlen = tier.pick(300usize, 1200);
        let ct = (any::<u8>(), 2u8..=4, 1usize..=maxlen, prop_oneof![Just(1usize), 1usize..=40, 41usize..=400], any::<u64>(), any::<u64>(), 1usize..=32).prop_map(|(kind, n_agg, len, chunk, p, seed, threads)| Case::Ctor { kind, n_agg, len, chunk, p, seed, threads });
        prop_oneof![3 => vd, 2 => gd, 1 => ct].boxed()
    }
    fn num_cases(&self, tier: Tier) -> u64 {
        tier.pick(1500, 15_000)
    }
    fn run(&self, case: &Case) -> Outcome {
        let mut obs = Obs::new();
        match case {
            Case::Vdaf { cfg, ctx, key_seed, nonce_seed, rand_seed, meas, threads, reps, contended } => {
                let chunks = cfg.inst.gadget_calls();
                let arity_chunks = cfg.inst.chunk().unwrap_or(1);
                obs.label(format!("type:{}", cfg.inst.name()));
                // the parallel iteration is over the chunk_length Mul sub-gadgets of one call
                if arity_chunks == 1 {
                    obs.label("par-chunks=1");
                } else if arity_chunks < *threads {
                    obs.label("par-chunks<threads");
                } else if arity_chunks > 4 * *threads {
                    obs.label("par-chunks>>threads");
                }
                if *contended {
                    obs.label("contended");
                }
                if *threads >= 2 && arity_chunks >= 2 {
                    obs.nt();
                }
                let _ = chunks;
                let serial_cfg = with_mt(cfg, false);
                let mt_cfg = with_mt(cfg, true);
                let col = |c: &VdafCfg| with_vdaf(c, Collect { ctx: &ctx.0, key_seed: *key_seed, nonce_seed: *nonce_seed, rand_seed: *rand_seed, meas, cfg: c }).and_then(|r| r);
                let want = match guard(|| col(&serial_cfg)) {
                    Ok(Ok(w)) => w,
                    Ok(Err(e)) => {
                        obs.fail("serial-honest-failed", format!("serial honest execution failed: {e}"));
                        return obs.finish();
                    }
                    Err(p) => {
                        obs.fail(format!("serial-{}", panic_sig(&p)), format!("serial execution panicked: {p}"));
                        return obs.finish();
                    }
                };
                let pool = match rayon::ThreadPoolBuilder::new().num_threads(*threads).build() {
                    Ok(p) => p,
                    Err(e) => {
                        obs.label(format!("pool-build-failed:{e}"));
                        return obs.finish();
                    }
                };
                let results: Vec<Result<Result<Vec<Vec<u8>>, String>, String>> = pool.install(|| {
                    if *contended {
                        use rayon::prelude::*;
                        (0..*reps).into_par_iter().map(|_| guard(|| col(&mt_cfg))).collect()
                    } else {
                        (0..*reps).map(|_| guard(|| col(&mt_cfg))).collect()
                    }
                });
                for (k, r) in results.into_iter().enumerate() {
                    match r {
                        Ok(Ok(got)) => {
                            if got != want {
                                let i = got.iter().zip(&want).position(|(a, b)| a != b).unwrap_or(0);
                                let names = ["public share", "input share", "verifier share/message/output share/result"];
                                obs.fail("multithreaded-differs", format!("repetition {k} on a pool of {threads} threads: item {i} ({}) of the multithreaded execution differs from the serial one", names[i.min(2)]));
                                break;
                            }
                        }
                        Ok(Err(e)) => {
                            obs.fail("multithreaded-honest-failed", format!("multithreaded honest execution failed where the serial one succeeds: {e}"));
                            break;
                        }
                        Err(p) => {
                            obs.fail(format!("multithreaded-{}", panic_sig(&p)), format!("multithreaded execution panicked: {p}"));
                            break;
                        }
                    }
                }
            }
            Case::Ctor { kind, n_agg, len, chunk, p, seed, threads } => {
                use prio::flp::types::{Histogram, MultihotCountVec, SumVec};
                type Ser = ParallelSum<Field128, Mul>;
                let (len, chunk, n_agg) = ((*len).max(1), (*chunk).max(1), (*n_agg).max(2));
                let inst = match kind % 3 {
                    0 => Inst::SumVec { f: FieldKind::F128, max: U(1 + (*p % 1000) as u128), len, chunk, mt: false },
                    1 => Inst::Histogram { f: FieldKind::F128, len, chunk, mt: false },
                    _ => Inst::Multihot { f: FieldKind::F128, len, max_weight: 1 + (*p as usize) % (len + 4), chunk, mt: false },
                };
                obs.label(format!("ctor:{}", inst.name()));
                if *threads >= 2 && chunk >= 2 {
                    obs.nt();
                }
                let cfg = VdafCfg { alg_id: inst.default_alg_id(), inst: inst.clone(), xof: XofKind::Turbo, n_agg, n_proofs: 1 };
                let meas = meas_from(&inst, (*seed % 7) as u8, *seed);
                let ctxb = b"ctor".to_vec();
                macro_rules! col {
                    ($vdaf:expr, $typ:expr) => {
                        match ($vdaf, $typ) {
                            (Ok(v), Ok(t)) => Collect { ctx: &ctxb, key_seed: seed ^ 1, nonce_seed: seed ^ 2, rand_seed: seed ^ 3, meas: &meas, cfg: &cfg }.visit(v, t),
                            (Err(e), _) => Err(format!("constructor: {e}")),
                            (_, Err(e)) => Err(format!("type constructor: {e}")),
                        }
                    };
                }
                let pool = match rayon::ThreadPoolBuilder::new().num_threads(*threads).build() {
                    Ok(p) => p,
                    Err(_) => return obs.finish(),
                };
                let r = guard(|| match &inst {
                    Inst::SumVec { max, .. } => (
                        col!(Prio3::new_sum_vec(n_agg, max.0, len, chunk), SumVec::<Field128, Ser>::new(max.0, len, chunk)),
                        pool.install(|| col!(Prio3::new_sum_vec_multithreaded(n_agg, max.0, len, chunk), SumVec::<Field128, ParallelSumMultithreaded<Field128, Mul>>::new(max.0, len, chunk))),
                    ),
                    Inst::Histogram { .. } => (
                        col!(Prio3::new_histogram(n_agg, len, chunk), Histogram::<Field128, Ser>::new(len, chunk)),
                        pool.install(|| col!(Prio3::new_histogram_multithreaded(n_agg, len, chunk), Histogram::<Field128, ParallelSumMultithreaded<Field128, Mul>>::new(len, chunk))),
                    ),
                    Inst::Multihot { max_weight, .. } => (
                        col!(Prio3::new_multihot_count_vec(n_agg, len, *max_weight, chunk), MultihotCountVec::<Field128, Ser>::new(len, *max_weight, chunk)),
                        pool.install(|| col!(Prio3::new_multihot_count_vec_multithreaded(n_agg, len, *max_weight, chunk), MultihotCountVec::<Field128, ParallelSumMultithreaded<Field128, Mul>>::new(len, *max_weight, chunk))),
                    ),
                    _ => unreachable!(),
                });
                match r {
                    Ok((Ok(a), Ok(b))) => {
                        if a != b {
                            let i = a.iter().zip(&b).position(|(x, y)| x != y).unwrap_or(0);
                            obs.fail("shipped-multithreaded-constructor-differs", format!("{}: item {i} of the transcript of Prio3::new_*_multithreaded differs from the serial constructor's (0 = public share, then input shares, verifier shares, message, output shares, result)", inst.name()));
                        }
                    }
                    Ok((Err(_), Err(_))) => obs.label("ctor:both-refuse"),
                    Ok((a, b)) => obs.fail("shipped-constructors-disagree", format!("{}: serial constructor/execution gives {:?}, multithreaded {:?}", inst.name(), a.map(|_| "ok"), b.map(|_| "ok"))),
                    Err(pn) => obs.fail(format!("ctor-{}", panic_sig(&pn)), format!("shipped constructor execution panicked: {pn}")),
                }
            }
            Case::Gadget { f128, calls, chunks, seed, threads } => {
                obs.label("gadget-level");
                if *threads >= 2 && *chunks >= 2 {
                    obs.nt();
                }
                if let Ok(pool) = rayon::ThreadPoolBuilder::new().num_threads(*threads).build() {
                    pool.install(|| {
                        if *f128 {
                            gadget_generic::<Field128>(*calls, *chunks, *seed, &mut obs)
                        } else {
                            gadget_generic::<Field64>(*calls, *chunks, *seed, &mut obs)
                        }
                    });
                }
            }
        }
        obs.finish()
    }
}
