#!/bin/bash
# tools/slot.sh <slot-name> <patch-file|--clean> <ID> [<ID> ...]
# Mutant evaluation outside /repo: a scratch worktree of /repo's HEAD plus a copy of the engine
# pointing at it, under /tmp/pvslot/<slot>. Applies the patch there, runs the quick tier of the
# given checks, prints one line per check. Nothing in /repo or /verif is touched.
set -u
slot="$1"; patch="$2"; shift 2
base=/tmp/pvslot/$slot
mkdir -p /tmp/pvslot
if [ ! -d "$base/repo" ]; then
    mkdir -p "$base"
    git -C /repo worktree add -q --detach "$base/repo" HEAD || exit 2
fi
git -C "$base/repo" checkout -q --detach "$(git -C /repo rev-parse HEAD)" 2>/dev/null
git -C "$base/repo" checkout -- . 
git -C "$base/repo" clean -fdq -e target
mkdir -p "$base/verif/evidence" "$base/verif/replays" "$base/verif/corpus"
cp /verif/known_findings.txt "$base/verif/" 2>/dev/null
rsync -a --delete /verif/corpus/ "$base/verif/corpus/" 2>/dev/null
# the engine as last committed in /verif (so that edits in progress never reach a slot)
rm -rf "$base/engine.new"; mkdir -p "$base/engine.new"
git -C /verif archive HEAD engine | tar -x -C "$base/engine.new"
rsync -a --delete --checksum "$base/engine.new/engine/" "$base/engine/"; rm -rf "$base/engine.new"
sed -i "s#path = \"/repo\"#path = \"$base/repo\"#" "$base/engine/Cargo.toml"
sed -i "s#target-dir = \"/verif/.target\"#target-dir = \"$base/target\"#" "$base/engine/.cargo/config.toml"
if [ "$patch" != "--clean" ]; then
    if ! git -C "$base/repo" apply "$patch"; then echo "SLOT $slot: patch does not apply"; exit 2; fi
fi
cd "$base/engine" || exit 2
if ! CARGO_NET_OFFLINE=true cargo build --release --offline >"$base/build.log" 2>&1; then
    echo "SLOT $slot: BUILD-FAILED (harness does not compile against the mutant)"; tail -5 "$base/build.log"; exit 2
fi
for id in "$@"; do
    out=$(PV_ROOT="$base/verif" "$base/target/release/pv" run "$id" quick 2>&1)
    rc=$?
    v=$(echo "$out" | grep -E "^pv: violation|^pv: .*(crash|hang|abort)" | head -1 | cut -c1-300)
    [ -z "$v" ] && v=$(echo "$out" | grep -E "^VIOLATION" | head -1 | sed "s#$base/verif#/verif#")
    echo "SLOT $slot $id rc=$rc $v"
done
