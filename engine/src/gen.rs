//! Generators for Prio3 instances, configurations and in-range measurements (edge lattice).

use crate::p3::*;
use crate::util::*;
use proptest::prelude::*;

#[derive(Clone, Copy, Debug)]
pub struct Limits {
    pub max_input_len: usize,
    /// bound on n_agg * n_proofs * input_len
    pub max_work: u64,
    pub big_aggs: bool,
    pub mt: bool,
    pub generic_fields: bool,
}

impl Limits {
    pub fn quick() -> Self {
        Limits { max_input_len: 600, max_work: 60_000, big_aggs: true, mt: false, generic_fields: true }
    }
    pub fn thorough() -> Self {
        Limits { max_input_len: 8_000, max_work: 800_000, big_aggs: true, mt: false, generic_fields: true }
    }
    pub fn small() -> Self {
        Limits { max_input_len: 120, max_work: 4_000, big_aggs: false, mt: false, generic_fields: true }
    }
}

pub fn u128_from(seed: u64, stream: u64) -> u128 {
    u128::from_le_bytes(expand_arr::<16>(seed, stream))
}

fn pmax(f: FieldKind) -> u128 {
    match f {
        FieldKind::F64 => P64 as u128 - 1,
        FieldKind::F128 => P128 - 1,
    }
}

/// The bound lattice: {1,2,3, 2^k-1, 2^k, 2^k+1, p-2, p-1} ∪ random.
pub fn max_from(f: FieldKind, sel: u8, k: u8, rnd: u128) -> u128 {
    let w = match f {
        FieldKind::F64 => 64u32,
        FieldKind::F128 => 128,
    };
    let pm = pmax(f);
    let k = 1 + (k as u32 % (w - 1));
    let v = match sel % 8 {
        0 => 1,
        1 => 2,
        2 => 3,
        3 => (1u128 << k) - 1,
        4 => 1u128 << k,
        5 => (1u128 << k) + 1,
        6 => {
            if rnd & 1 == 0 {
                pm
            } else {
                pm - 1
            }
        }
        _ => rnd % pm + 1,
    };
    v.clamp(1, pm)
}

fn isqrt(n: usize) -> usize {
    let mut r = (n as f64).sqrt() as usize;
    while r * r > n {
        r -= 1;
    }
    while (r + 1) * (r + 1) <= n {
        r += 1;
    }
    r
}

/// The chunk-length lattice for an encoded length n.
pub fn chunk_from(n: usize, sel: u8, rnd: u16) -> usize {
    let v = match sel % 10 {
        0 => 1,
        1 => 2,
        2 => isqrt(n),
        3 => {
            // a divisor of n
            let divs: Vec<usize> = (1..=n).filter(|d| n % d == 0).take(64).collect();
            divs[crate::harness::idx16(rnd, divs.len())]
        }
        4 => {
            // a non-divisor (if any)
            let nd: Vec<usize> = (2..n).filter(|d| n % d != 0).take(64).collect();
            if nd.is_empty() {
                n + 1
            } else {
                nd[crate::harness::idx16(rnd, nd.len())]
            }
        }
        5 => n.saturating_sub(1),
        6 => n,
        7 => n + 1,
        8 => n + 7,
        _ => 1 + crate::harness::idx16(rnd, n + 2),
    };
    v.max(1)
}

#[derive(Clone, Debug)]
pub struct InstRaw {
    pub kind: u8,
    pub generic: bool,
    pub maxsel: u8,
    pub k: u8,
    pub rnd: u64,
    pub len: u16,
    pub chunksel: u8,
    pub chunkrnd: u16,
    pub wsel: u8,
}

pub fn inst_from(raw: &InstRaw, lim: &Limits) -> Inst {
    let kind = raw.kind % 7;
    // shipped field, or the other one when `generic`
    let shipped = match kind {
        0 | 1 => FieldKind::F64,
        _ => FieldKind::F128,
    };
    let f = if raw.generic && lim.generic_fields {
        match shipped {
            FieldKind::F64 => FieldKind::F128,
            FieldKind::F128 => FieldKind::F64,
        }
    } else {
        shipped
    };
    let rnd = u128_from(raw.rnd, 77);
    let max = max_from(f, raw.maxsel, raw.k, rnd);
    let bits = (128 - max.leading_zeros()) as usize;
    let l = lim.max_input_len;
    let mt = lim.mt;
    match kind {
        0 => Inst::Count { f },
        1 => Inst::Sum { f, max: U(max) },
        2 => Inst::Average { f, max: U(max) },
        3 => {
            let maxlen = (l / bits).max(1);
            let len = 1 + crate::harness::idx16(raw.len, maxlen);
            let chunk = chunk_from(bits * len, raw.chunksel, raw.chunkrnd);
            Inst::SumVec { f, max: U(max), len, chunk, mt }
        }
        4 => {
            let len = 1 + crate::harness::idx16(raw.len, l);
            let chunk = chunk_from(len, raw.chunksel, raw.chunkrnd);
            Inst::Histogram { f, len, chunk, mt }
        }
        5 => {
            let len = 1 + crate::harness::idx16(raw.len, l.saturating_sub(12).max(1));
            let mw = match raw.wsel % 7 {
                0 => 1,
                1 => len,
                2 => len + 1,
                3 => len + 2,
                4 => ((1usize << (1 + raw.k as usize % 10)) - 1).min(len + 2),
                5 => (1usize << (raw.k as usize % 10)).min(len + 2),
                _ => 1 + (raw.rnd as usize) % (len + 2),
            }
            .max(1);
            let n = len + (usize::BITS - mw.leading_zeros()) as usize;
            let chunk = chunk_from(n, raw.chunksel, raw.chunkrnd);
            Inst::Multihot { f, len, max_weight: mw, chunk, mt }
        }
        _ => {
            let maxlen = (l / bits).saturating_sub(1).max(1);
            let len = 1 + crate::harness::idx16(raw.len, maxlen);
            let chunk = chunk_from(bits * (len + 1), raw.chunksel, raw.chunkrnd);
            Inst::L1 { f, max: U(max), len, chunk }
        }
    }
}

pub fn inst_raw() -> impl Strategy<Value = InstRaw> {
    (
        (0u8..7, prop::bool::weighted(0.3), any::<u8>(), any::<u8>(), any::<u64>()),
        (any::<u16>(), any::<u8>(), any::<u16>(), any::<u8>()),
    )
        .prop_map(|((kind, generic, maxsel, k, rnd), (len, chunksel, chunkrnd, wsel))| InstRaw { kind, generic, maxsel, k, rnd, len, chunksel, chunkrnd, wsel })
}

pub fn inst_strategy(lim: Limits) -> BoxedStrategy<Inst> {
    inst_raw().prop_map(move |r| inst_from(&r, &lim)).boxed()
}

/// Aggregator counts: mostly small, the extremes in a minority.
pub fn n_agg_from(sel: u8, big: bool) -> u8 {
    const SMALL: [u8; 8] = [2, 2, 3, 3, 4, 5, 8, 2];
    const BIG: [u8; 6] = [17, 128, 253, 254, 6, 33];
    if big && sel >= 236 {
        BIG[(sel as usize - 236) % BIG.len()]
    } else {
        SMALL[sel as usize % SMALL.len()]
    }
}

pub fn n_proofs_from(sel: u8) -> u8 {
    match sel {
        0..=119 => 1,
        120..=189 => 2,
        190..=239 => 3,
        240..=249 => 7,
        _ => 255,
    }
}

pub fn xof_from(sel: u8) -> XofKind {
    match sel % 10 {
        0..=4 => XofKind::Turbo,
        5 | 6 => XofKind::Hmac,
        _ => XofKind::Biased,
    }
}

pub fn cfg_strategy(lim: Limits) -> BoxedStrategy<VdafCfg> {
    (inst_raw(), any::<u8>(), any::<u8>(), any::<u8>(), prop::bool::weighted(0.15), any::<u32>())
        .prop_map(move |(raw, asel, psel, xsel, custom_alg, alg)| {
            let inst = inst_from(&raw, &lim);
            let mut n_agg = n_agg_from(asel, lim.big_aggs);
            let mut n_proofs = n_proofs_from(psel);
            let il = inst.input_len().max(1) as u64;
            // bound the work: first the proofs, then the aggregators
            while (n_agg as u64) * (n_proofs as u64) * il > lim.max_work && n_proofs > 1 {
                n_proofs = (n_proofs / 2).max(1);
            }
            while (n_agg as u64) * (n_proofs as u64) * il > lim.max_work && n_agg > 2 {
                n_agg = (n_agg / 2).max(2);
            }
            let alg_id = if custom_alg { alg } else { inst.default_alg_id() };
            VdafCfg { inst, xof: xof_from(xsel), n_agg, n_proofs, alg_id }
        })
        .boxed()
}

fn bounded_int(max: u128, sel: u8, seed: u64, stream: u64) -> u128 {
    let bits = 128 - max.leading_zeros();
    let thr = (1u128 << (bits - 1)) - 1;
    match sel % 8 {
        0 => 0,
        1 => max,
        2 => 1.min(max),
        3 => thr,
        4 => (thr + 1).min(max),
        5 => max - 1,
        _ => {
            let r = u128_from(seed, stream);
            if max == u128::MAX {
                r
            } else {
                r % (max + 1)
            }
        }
    }
}

/// An in-range measurement for `inst`; `sel` picks the edge class, `seed` the random content.
pub fn meas_from(inst: &Inst, sel: u8, seed: u64) -> Meas {
    match inst {
        Inst::Count { .. } => Meas::Bool(sel % 2 == 1),
        Inst::Sum { max, .. } | Inst::Average { max, .. } => Meas::Int(U(bounded_int(max.0, sel, seed, 1))),
        Inst::SumVec { max, len, .. } => {
            let sels = expand(seed, 2, *len);
            Meas::Ints(
                (0..*len)
                    .map(|i| {
                        let s = match sel % 4 {
                            0 => 0,
                            1 => 1,
                            _ => sels[i],
                        };
                        U(bounded_int(max.0, s, seed, 100 + i as u64))
                    })
                    .collect(),
            )
        }
        Inst::Histogram { len, .. } => Meas::Index(match sel % 4 {
            0 => 0,
            1 => len - 1,
            _ => (u128_from(seed, 3) % *len as u128) as usize,
        }),
        Inst::Multihot { len, max_weight, .. } => {
            let cap = (*max_weight).min(*len);
            let mut v = vec![false; *len];
            match sel % 6 {
                0 => {}
                1 => {
                    for b in v.iter_mut().take(cap) {
                        *b = true;
                    }
                }
                2 => v[len - 1] = true,
                s => {
                    // random positions; weight exactly cap (s==3) or random <= cap
                    let target = if s == 3 { cap } else { (u128_from(seed, 4) % (cap as u128 + 1)) as usize };
                    let mut w = 0;
                    let mut i = 0u64;
                    while w < target {
                        let pos = (u128_from(seed, 1000 + i) % *len as u128) as usize;
                        i += 1;
                        if !v[pos] {
                            v[pos] = true;
                            w += 1;
                        }
                    }
                }
            }
            Meas::Bools(v)
        }
        Inst::L1 { max, len, .. } => {
            let mut v = vec![0u128; *len];
            match sel % 6 {
                0 => {}
                1 => v[0] = max.0,
                2 => v[len - 1] = max.0,
                s => {
                    // total t <= max (exactly max for s == 3), distributed
                    let t = if s == 3 { max.0 } else { bounded_int(max.0, 7, seed, 5) };
                    let mut rem = t;
                    let sels = expand(seed, 6, *len);
                    for i in 0..*len {
                        let x = if i == len - 1 && s != 5 {
                            rem
                        } else {
                            match sels[i] % 4 {
                                0 => 0,
                                1 => rem,
                                _ => {
                                    if rem == u128::MAX {
                                        u128_from(seed, 200 + i as u64)
                                    } else {
                                        u128_from(seed, 200 + i as u64) % (rem + 1)
                                    }
                                }
                            }
                        };
                        v[i] = x;
                        rem -= x;
                    }
                }
            }
            Meas::Ints(v.into_iter().map(U).collect())
        }
    }
}

/// Bytes from a seed: 0 → all zero, 1 → all 0xFF, otherwise pseudo-random.
pub fn bytes_from(seed: u64, n: usize) -> Vec<u8> {
    match seed {
        0 => vec![0; n],
        1 => vec![0xFF; n],
        // one pseudo-random 16- / 32-byte block repeated: every seed-sized chunk of the string is
        // the same value (equal helper seeds, equal IDPF keys, blind = seed, …)
        2 | 3 => {
            let w = if seed == 2 { 16 } else { 32 };
            let block = expand(seed, 9, w);
            (0..n).map(|i| block[i % w]).collect()
        }
        s => expand(s, 9, n),
    }
}

pub fn arr_from<const N: usize>(seed: u64) -> [u8; N] {
    let v = bytes_from(seed, N);
    let mut a = [0u8; N];
    a.copy_from_slice(&v);
    a
}

/// Seeds with the degenerate values 0 and 1 over-represented.
pub fn seed_strategy() -> BoxedStrategy<u64> {
    prop_oneof![
        1 => Just(0u64),
        1 => Just(1u64),
        1 => Just(2u64),
        1 => Just(3u64),
        20 => any::<u64>(),
    ]
    .boxed()
}

pub fn ctx_strategy() -> BoxedStrategy<Hex> {
    prop_oneof![
        2 => Just(Hex(vec![])),
        8 => hexbytes(0..=16),
        3 => hexbytes(17..=80),
    ]
    .boxed()
}

/// Configurations whose element counts cross 2^16 (input length, output length, proof length): the region a narrowing cast or a 16-bit counter would first get wrong. Used as
/// fixed corpus cases by the checks whose generators otherwise stay below a few thousand elements.
pub fn wide_cfgs() -> Vec<VdafCfg> {
    let mk = |inst: Inst, n_agg: u8, xof: XofKind| VdafCfg { alg_id: inst.default_alg_id(), inst, xof, n_agg, n_proofs: 1 };
    vec![
        mk(Inst::Histogram { f: FieldKind::F128, len: 65_544, chunk: 256, mt: false }, 2, XofKind::Turbo),
        mk(Inst::Histogram { f: FieldKind::F64, len: 65_537, chunk: 300, mt: false }, 3, XofKind::Turbo),
        mk(Inst::SumVec { f: FieldKind::F128, max: U(1), len: 65_600, chunk: 256, mt: false }, 2, XofKind::Turbo),
        mk(Inst::SumVec { f: FieldKind::F64, max: U(255), len: 8_200, chunk: 250, mt: false }, 2, XofKind::Hmac),
        mk(Inst::Multihot { f: FieldKind::F64, len: 65_600, max_weight: 4_403, chunk: 260, mt: false }, 2, XofKind::Turbo),
        mk(Inst::L1 { f: FieldKind::F128, max: U(255), len: 8_193, chunk: 257 }, 2, XofKind::Turbo),
        // (more than 2^16 gadget calls is out of reach: the library's extend_values_to_power_of_2
        // is quadratic in the number of calls, > 5 minutes per report at 66 000 calls)
        mk(Inst::SumVec { f: FieldKind::F64, max: U(1), len: 4_200, chunk: 2, mt: false }, 2, XofKind::Turbo),
    ]
}
