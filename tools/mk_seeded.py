#!/usr/bin/env python3
"""Build /verif/seeded/<Cxx-mN>/ from the staging area: patch.diff, demo.rs, notes.md, meta.json.
Only changes that were independently confirmed (tools/confirm_mutant.sh: demo passes on the clean
tree, the 181-test suite passes with the change, the demo fails with the change) are kept."""
import json, os, re, shutil, sys
ST = "/verif/seeded/_staging"
OUT = "/verif/seeded"
RELATED = {"C01": ["C07", "C16"], "C02": ["C05"], "C03": ["C06", "C20"], "C04": ["C16"], "C05": ["C02"], "C06": ["C03"], "C07": ["C01"], "C08": ["C07"], "C11": ["C18"], "C12": ["C07"], "C18": ["C11"], "C19": ["C10", "C16"], "C20": ["C03"]}
DROPPED = {("C18", 1): "neutralised by fix e1684ff: with the role/identifier consistency check in verify_init the change no longer lets a report complete verification (its demonstration passes with the change applied); the defect it relied on is the one that commit repairs"}
confirm = {}
for log in ["/verif/seeded/confirm.log"]:
    if os.path.exists(log):
        for l in open(log):
            m = re.match(r"CONFIRM (\S+) mut(\d) \| clean-demo: (.*?) \| mutant-demo: (.*?) \| mutant-suite: (.*)", l.strip())
            if m:
                confirm[(m.group(1), int(m.group(2)))] = (m.group(3), m.group(4), m.group(5))
def section(md, pat):
    out, on = [], False
    for l in md.splitlines():
        if l.startswith("#"):
            on = bool(re.search(pat, l, re.I))
            continue
        if on:
            out.append(l)
    return "\n".join(out).strip()
kept = []
for prop in sorted(os.listdir(ST)):
    for n in (1, 2, 3):
        p = f"{ST}/{prop}/mut{n}.patch"
        if not os.path.exists(p):
            continue
        if (prop, n) in DROPPED:
            continue
        md = open(f"{ST}/{prop}/mut{n}.md").read() if os.path.exists(f"{ST}/{prop}/mut{n}.md") else ""
        title = md.splitlines()[0].lstrip("# ").strip() if md else f"{prop} change {n}"
        needs = section(md, r"needed|what is needed|to see") or section(md, r"effect")
        d = f"{OUT}/{prop}-m{n}"
        os.makedirs(d, exist_ok=True)
        shutil.copy(p, f"{d}/patch.diff")
        shutil.copy(f"{ST}/{prop}/mut{n}_demo.rs", f"{d}/demo.rs")
        if md:
            open(f"{d}/notes.md", "w").write(md)
        c = confirm.get((prop, n)) or confirm.get(("_staging", n) if prop == "C01" else None)
        meta = {
            "id": f"{prop}-m{n}",
            "breaks_property": prop,
            "title": title,
            "origin": "written by a fresh sub-agent that saw only the text of the property and a scratch worktree of /repo; nothing from /verif",
            "needs_to_manifest": needs,
            "confirmed": {
                "how": "tools/confirm_mutant.sh in a scratch worktree: (a) demo.rs as tests/<name>.rs on the unchanged tree with --features experimental,multithreaded,test-util,verif-hooks; (b) cargo test --workspace --no-fail-fast --offline with the change applied; (c) the demo with the change applied",
                "clean_demo": c[0] if c else None,
                "changed_demo": c[1] if c else None,
                "changed_suite": c[2] if c else None,
            },
            "checks_run": [prop] + RELATED.get(prop, []),
            "apply": "git -C /repo apply /verif/seeded/%s-m%d/patch.diff   (undo: git -C /repo checkout -- .)" % (prop, n),
        }
        json.dump(meta, open(f"{d}/meta.json", "w"), indent=1)
        kept.append(meta["id"])
json.dump({"kept": kept, "dropped": {f"{k[0]}-m{k[1]}": v for k, v in DROPPED.items()}}, open(f"{OUT}/INDEX.json", "w"), indent=1)
print(len(kept), "kept")
