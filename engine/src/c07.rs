//! C07 — wire encodings are canonical, round-trip, and report their exact length.

use crate::c07gram::*;
pub use crate::c07gram::{build, spec_strategy, Expect};
use crate::codec::*;
use crate::gen::*;
use crate::harness::*;
use crate::p3::*;
use crate::util::*;
use num_bigint::BigUint;
use num_traits::{One, Zero};
use proptest::prelude::*;
use serde::{Deserialize, Serialize};

pub struct C07;

#[derive(Clone, Debug, Serialize, Deserialize)]
pub enum Case {
    Str { spec: Spec, bytes: Hex, expect: Expect, why: String },
    /// an honest Prio3 execution; every message it produces must be accepted and round-trip
    HonestP3(crate::c01::Case),
    HonestPoplar(crate::c03::Case),
    HonestPrio2 { len: usize, seed: u64 },
}

pub fn str_case_strategy(bad16: u64) -> BoxedStrategy<Case> {
    (spec_strategy(), any::<u64>())
        .prop_map(move |(spec, seed)| {
            let b = build(&spec, seed, bad16);
            Case::Str { spec, bytes: Hex(b.bytes), expect: b.expect, why: b.why }
        })
        .boxed()
}

// ------------------------------------------------------------------------------------------------
// Oracle

pub fn check_str(spec: &Spec, bytes: &[u8], expect: Expect, why: &str, obs: &mut Obs) {
    obs.label(format!("family:{}", spec.family()));
    let prep = match prepare(spec) {
        Ok(p) => p,
        Err(e) => {
            obs.fail("spec-construction", format!("cannot construct the decoding parameter for {spec:?}: {e}"));
            return;
        }
    };
    let rt = prep(bytes, Mode::Full);
    let fam = spec.family();
    if let Some(p) = &rt.panic {
        obs.fail(format!("{fam}-{}", panic_sig(p.split_once(": ").map(|x| x.1).unwrap_or(p))), format!("{spec:?}: {p} on input {}", hex(bytes)));
        return;
    }
    match expect {
        Expect::Accept => {
            obs.label("grammar:canonical");
            if !rt.accepted {
                obs.fail(format!("{fam}-canonical-rejected"), format!("{spec:?}: canonical encoding {} rejected: {:?}", hex(bytes), rt.err));
                return;
            }
        }
        Expect::Reject => {
            obs.label("grammar:non-canonical");
            obs.nt();
            if rt.accepted {
                obs.fail(format!("{fam}-noncanonical-accepted"), format!("{spec:?}: accepted a string that is not a canonical encoding ({why}): {}", hex(bytes)));
                return;
            }
        }
        Expect::Unknown => obs.label("grammar:unknown"),
    }
    if rt.accepted {
        obs.label("accepted");
        if !bytes.is_empty() {
            obs.nt();
        }
        match (&rt.reenc, &rt.reenc_err) {
            (Some(b), _) => {
                if b != bytes {
                    obs.fail(format!("{fam}-reencode-differs"), format!("{spec:?}: accepted {} but re-encodes to {}", hex(bytes), hex(b)));
                    return;
                }
                match rt.enc_len {
                    Some(n) if n != b.len() => {
                        obs.fail(format!("{fam}-encoded-len"), format!("{spec:?}: encoded_len() = {n} but {} bytes are produced", b.len()));
                        return;
                    }
                    None => {
                        obs.fail(format!("{fam}-encoded-len-none"), format!("{spec:?}: encoded_len() is None for an encodable value"));
                        return;
                    }
                    _ => {}
                }
                if rt.roundtrip_equal == Some(false) {
                    obs.fail(format!("{fam}-roundtrip-unequal"), format!("{spec:?}: value decoded from {} is not equal to the value decoded from its own encoding", hex(bytes)));
                }
            }
            (None, Some(e)) => {
                obs.fail(format!("{fam}-encode-error"), format!("{spec:?}: a decoded value refuses to encode: {e}"));
            }
            _ => {}
        }
    } else {
        obs.label("rejected");
    }
}

// ------------------------------------------------------------------------------------------------
// Honest harvest

struct Harvest<'a> {
    case: &'a crate::c01::Case,
    out: &'a mut Vec<(Spec, Vec<u8>)>,
    err: &'a mut Option<String>,
}

impl<'a> VdafVisitor for Harvest<'a> {
    type Out = ();
    fn visit<T, P>(self, vdaf: prio::vdaf::prio3::Prio3<T, P, 32>, _typ: T)
    where
        T: TypeBridge + 'static,
        T::Field: FieldBig,
        P: prio::vdaf::xof::Xof<32> + 'static,
    {
        use prio::codec::Encode;
        let case = self.case;
        let cfg = &case.cfg;
        let n = cfg.n_agg as usize;
        let key: [u8; 32] = arr_from(case.key_seed);
        for r in &case.reports {
            let m = T::to_meas(&r.meas);
            let nonce: [u8; 16] = arr_from(r.nonce_seed);
            let rand = bytes_from(r.rand_seed, cfg.rand_len());
            let sh = match shard_wire(&vdaf, &case.ctx.0, &m, &nonce, &rand) {
                Ok(s) => s,
                Err(f) => {
                    *self.err = Some(f.describe());
                    return;
                }
            };
            self.out.push((Spec::P3Public(cfg.clone()), sh.public_share.clone()));
            let mut shares = vec![];
            let mut states = vec![];
            for j in 0..n {
                self.out.push((Spec::P3Input(cfg.clone(), j), sh.input_shares[j].clone()));
                let a = AggInput { agg_id: j, verify_key: key, ctx: case.ctx.0.clone(), nonce, public_share: sh.public_share.clone(), input_share: sh.input_shares[j].clone() };
                match init_wire(&vdaf, &(), &a) {
                    Ok(o) => {
                        self.out.push((Spec::P3VerifierShare(cfg.clone(), j), o.verifier_share.clone()));
                        match o.state.get_encoded() {
                            Ok(b) => self.out.push((Spec::P3State(cfg.clone(), j), b)),
                            Err(e) => {
                                *self.err = Some(format!("state encode: {e}"));
                                return;
                            }
                        }
                        shares.push(o.verifier_share);
                        states.push(o.state);
                    }
                    Err(f) => {
                        *self.err = Some(f.describe());
                        return;
                    }
                }
            }
            let msg = match combine_wire(&vdaf, &case.ctx.0, &(), &states[0], &shares) {
                Ok(m) => m,
                Err(f) => {
                    *self.err = Some(f.describe());
                    return;
                }
            };
            for (j, st) in states.into_iter().enumerate() {
                self.out.push((Spec::P3VerifierMessage(cfg.clone(), j), msg.clone()));
                // the continuation a ping-pong party would persist: state ‖ message
                if let Ok(sb) = st.get_encoded() {
                    let mut c = sb;
                    c.extend_from_slice(&msg);
                    self.out.push((Spec::P3Continuation(cfg.clone(), j), c));
                }
                match next_wire(&vdaf, j, &case.ctx.0, &(), st, &msg) {
                    Ok(NextOut::Finish(b)) => {
                        self.out.push((Spec::P3Output(cfg.clone()), b.clone()));
                        self.out.push((Spec::P3Agg(cfg.clone()), b));
                    }
                    Ok(_) => {}
                    Err(f) => {
                        *self.err = Some(f.describe());
                        return;
                    }
                }
            }
        }
    }
}

impl Check for C07 {
    type Case = Case;
    const ID: &'static str = "C07";
    fn rule(&self) -> String {
        "(a) per-type grammar builds byte strings that are canonical encodings or carry exactly one known defect (element ≥ p, unknown tag, non-zero padding/trailing bits, truncation, trailing bytes, count mismatch, unsorted/duplicate prefixes); canonical ones must be accepted, defective ones rejected, and every accepted string must re-encode to the same bytes with encoded_len() equal to the produced length and decode(encode(v)) == v; (b) honest Prio3 / Poplar1 / Prio2 executions: every message they produce is probed the same way and must be accepted. Non-trivial = a defective string, or a non-empty accepted string; distinct by hash of (type, parameter, bytes)".into()
    }
    fn assumptions(&self) -> Vec<String> {
        vec!["the grammar (layouts) is written from the wire formats of draft-irtf-cfrg-vdaf-18 and the type documentation, independently of the decoders".into()]
    }
    fn strategy(&self, tier: Tier) -> BoxedStrategy<Case> {
        let small = Limits::small();
        let _ = tier;
        prop_oneof![
            12 => str_case_strategy(9),
            2 => crate::c01::case_strategy(small, 2).prop_map(Case::HonestP3),
            2 => crate::c03::case_strategy(crate::c03::Size::Small).prop_map(Case::HonestPoplar),
            1 => (prop_oneof![1usize..=9, Just(15usize), Just(16), Just(31), Just(32)], any::<u64>()).prop_map(|(len, seed)| Case::HonestPrio2 { len, seed }),
        ]
        .boxed()
    }
    fn num_cases(&self, tier: Tier) -> u64 {
        tier.pick(400_000, 8_000_000)
    }
    fn builtin_corpus(&self) -> Vec<Case> {
        vec![
            // the two encoded_len defects of DESIGN.md section 5 (fixed by fix: commits)
            Case::HonestPoplar(crate::c03::Case::simple(4, false)),
            Case::HonestPoplar(crate::c03::Case::simple(4, true)),
            Case::Str { spec: Spec::PopAggParam, bytes: Hex(vec![0xff, 0xff, 0, 0, 0, 1].into_iter().chain(std::iter::repeat(0).take(8192)).collect()), expect: Expect::Accept, why: "level 65535, one all-zero prefix of 65536 bits".into() },
        ]
    }
    fn run(&self, case: &Case) -> Outcome {
        let mut obs = Obs::new();
        match case {
            Case::Str { spec, bytes, expect, why } => check_str(spec, &bytes.0, *expect, why, &mut obs),
            Case::HonestP3(c) => {
                obs.label("honest:prio3");
                let mut out = vec![];
                let mut err = None;
                match with_vdaf(&c.cfg, Harvest { case: c, out: &mut out, err: &mut err }) {
                    Ok(()) => {}
                    Err(e) => err = Some(e),
                }
                if let Some(e) = err {
                    // honest executions failing is C01's business; here it only limits the harvest
                    obs.label(format!("honest-run-incomplete:{}", e.split(' ').next().unwrap_or("")));
                }
                obs.evals = out.len().max(1) as u64;
                for (spec, b) in &out {
                    let mut o2 = Obs::new();
                    check_str(spec, b, Expect::Accept, "honest message", &mut o2);
                    for l in o2.labels {
                        obs.label(l);
                    }
                    if let Some((s, w)) = o2.violation {
                        obs.fail(format!("honest-{s}"), w);
                        break;
                    }
                }
                obs.inner_hashes = out.iter().filter(|(_, b)| !b.is_empty()).map(|x| hash64(&(format!("{:?}", x.0), &x.1))).collect();
            }
            Case::HonestPoplar(c) => {
                obs.label("honest:poplar1");
                let msgs = crate::c03::harvest(c);
                obs.evals = msgs.len().max(1) as u64;
                for (spec, b) in &msgs {
                    let mut o2 = Obs::new();
                    check_str(spec, b, Expect::Accept, "honest message", &mut o2);
                    for l in o2.labels {
                        obs.label(l);
                    }
                    if let Some((s, w)) = o2.violation {
                        obs.fail(format!("honest-{s}"), w);
                        break;
                    }
                }
                obs.inner_hashes = msgs.iter().filter(|(_, b)| !b.is_empty()).map(|x| hash64(&(format!("{:?}", x.0), &x.1))).collect();
            }
            Case::HonestPrio2 { len, seed } => {
                obs.label("honest:prio2");
                let msgs = crate::c19::harvest(*len, *seed);
                obs.evals = msgs.len().max(1) as u64;
                for (spec, b) in &msgs {
                    let mut o2 = Obs::new();
                    check_str(spec, b, Expect::Accept, "honest message", &mut o2);
                    for l in o2.labels {
                        obs.label(l);
                    }
                    if let Some((s, w)) = o2.violation {
                        obs.fail(format!("honest-{s}"), w);
                        break;
                    }
                }
                obs.inner_hashes = msgs.iter().filter(|(_, b)| !b.is_empty()).map(|x| hash64(&(format!("{:?}", x.0), &x.1))).collect();
            }
        }
        obs.finish()
    }
}
