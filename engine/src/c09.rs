//! C09 — field elements behave exactly as integers modulo the field prime.

use crate::harness::*;
use crate::p3::IntConv;
use crate::util::*;
use num_bigint::BigUint;
use num_traits::{One, Zero};
use prio::codec::{Decode, Encode};
use prio::field::{Field128, Field255, Field64, FieldElement, FieldPrio2, NttFriendlyFieldElement};
use prio::verif_hooks::fp::{fp128, fp32, fp64, small_fields_u16, small_fields_u8, RawField};
use proptest::prelude::*;
use serde::{Deserialize, Serialize};
use std::hash::{Hash, Hasher};
use subtle::Choice;

pub struct C09;

#[derive(Clone, Copy, Debug, Serialize, Deserialize, PartialEq, Eq)]
pub enum SmallOp {
    Add,
    Sub,
    Mul,
    Unary,
    Pow,
}

#[derive(Clone, Copy, Debug, Serialize, Deserialize, PartialEq, Eq)]
pub enum Fld {
    F32,
    F64,
    F128,
    F255,
}

#[derive(Clone, Debug, Serialize, Deserialize)]
pub enum Case {
    /// the whole operand space of one operation of one 8-bit instantiation
    Small8 { idx: usize, op: SmallOp },
    /// rows x ∈ {xs} × all y of one operation of one 16-bit instantiation
    Small16 { idx: usize, op: SmallOp, xs: Vec<u16> },
    /// one row range of a 16-bit instantiation: x in [x0, x0+n)
    Small16Range { idx: usize, op: SmallOp, x0: u32, n: u32 },
    /// constants of the small instantiations against values recomputed from p
    SmallConstants,
    /// deployed field: lattice ∪ random operand set, all pairs, raw and public API
    Deployed { field: Fld, seed: u64 },
    /// deployed field: structural facts (generator, roots, half, conversions)
    Structure { field: Fld },
}

fn pow_mod(mut b: u64, mut e: u64, m: u64) -> u64 {
    let mut r = 1 % m;
    b %= m;
    while e > 0 {
        if e & 1 == 1 {
            r = (r as u128 * b as u128 % m as u128) as u64;
        }
        b = (b as u128 * b as u128 % m as u128) as u64;
        e >>= 1;
    }
    r
}

struct SmallModel {
    p: u64,
    r: u64,
    rinv: u64,
}

impl SmallModel {
    fn new(p: u64, wbits: usize) -> Self {
        let r = (1u64 << wbits) % p;
        SmallModel { p, r, rinv: pow_mod(r, p - 2, p) }
    }
}

macro_rules! small_run {
    ($fld:expr, $W:ty, $op:expr, $xs:expr, $obs:expr) => {{
        let f: &RawField<$W> = $fld;
        let p = f.prime as u64;
        let m = SmallModel::new(p, f.word_bits);
        let mut n: u64 = 0;
        let name = f.name;
        let fail = |what: String, obs: &mut Obs| obs.fail(format!("{name}-{:?}", $op), what);
        'outer: for x in $xs {
            let x: $W = x;
            let xl = x as u64;
            match $op {
                SmallOp::Add | SmallOp::Sub | SmallOp::Mul => {
                    if xl >= p {
                        continue;
                    }
                    let xr = xl * m.rinv % p;
                    for y in 0..f.prime {
                        let yl = y as u64;
                        let (got, want) = match $op {
                            SmallOp::Add => ((f.add)(x, y) as u64, (xl + yl) % p),
                            SmallOp::Sub => ((f.sub)(x, y) as u64, (xl + p - yl) % p),
                            _ => ((f.mul)(x, y) as u64, xr * yl % p),
                        };
                        n += 1;
                        if got != want {
                            fail(format!("{name}: {:?}({xl}, {yl}) = {got}, expected {want} (Montgomery domain, p = {p})", $op), $obs);
                            break 'outer;
                        }
                    }
                }
                SmallOp::Unary => {
                    // montgomery over the whole word, the others over [0, p)
                    let got = (f.montgomery)(x) as u64;
                    let want = (xl % p) * m.r % p;
                    n += 1;
                    if got != want {
                        fail(format!("{name}: montgomery({xl}) = {got}, expected {want}"), $obs);
                        break 'outer;
                    }
                    if xl < p {
                        let checks: [(&str, u64, u64); 3] = [
                            ("neg", (f.neg)(x) as u64, (p - xl) % p),
                            ("residue", (f.residue)(x) as u64, xl * m.rinv % p),
                            ("inv", (f.inv)(x) as u64, {
                                let a = xl * m.rinv % p;
                                pow_mod(a, p - 2, p) * m.r % p
                            }),
                        ];
                        for (what, got, want) in checks {
                            n += 1;
                            if got != want {
                                fail(format!("{name}: {what}({xl}) = {got}, expected {want}"), $obs);
                                break 'outer;
                            }
                        }
                    }
                }
                SmallOp::Pow => {
                    if xl >= p {
                        continue;
                    }
                    let a = xl * m.rinv % p;
                    let exps: Vec<u64> = if f.word_bits == 8 {
                        (0..256u64).collect()
                    } else {
                        let mut e: Vec<u64> = vec![0, 1, 2, 3, p - 2, p - 1, p, p + 1, 65535, 65534, 32768, 32767];
                        for k in 0..16 {
                            e.push(1 << k);
                            e.push((1 << k) - 1);
                        }
                        e.retain(|v| *v < 65536);
                        e
                    };
                    for e in exps {
                        let got = (f.pow)(x, e as $W) as u64;
                        let want = pow_mod(a, e, p) * m.r % p;
                        n += 1;
                        if got != want {
                            fail(format!("{name}: pow({xl}, {e}) = {got}, expected {want}"), $obs);
                            break 'outer;
                        }
                    }
                }
            }
        }
        n
    }};
}

fn lattice16(p: u16) -> Vec<u16> {
    let mut v: Vec<u32> = vec![0, 1, 2, 3, p as u32 - 1, p as u32 - 2, (p as u32 - 1) / 2, (p as u32 + 1) / 2, 255, 256, 257, 0xFF00, 0x00FF];
    for k in 0..16 {
        v.push(1 << k);
        v.push((1u32 << k) - 1);
        v.push((1 << k) + 1);
    }
    let mut out: Vec<u16> = v.into_iter().filter(|x| *x < p as u32).map(|x| x as u16).collect();
    out.sort();
    out.dedup();
    out
}

// ------------------------------------------------------------------------------------------------
// Deployed fields

fn lattice_big(p: &BigUint, bits: usize, limb: usize, seed: u64, nrand: usize) -> Vec<BigUint> {
    let one = BigUint::one();
    let mut v: Vec<BigUint> = vec![BigUint::zero(), one.clone(), BigUint::from(2u32), BigUint::from(3u32), p - 1u32, p - 2u32, p - 3u32, (p - 1u32) / 2u32, (p + 1u32) / 2u32];
    for k in 0..bits {
        let x = &one << k;
        v.push(x.clone());
        v.push(&x - 1u32);
        v.push(&x + 1u32);
    }
    // limb masks and values with zero low / high limbs
    let mut j = 0;
    while j < bits {
        let mask = ((&one << limb) - 1u32) << j;
        v.push(mask.clone());
        v.push(&mask + 1u32);
        v.push((p - 1u32) ^ (&mask & (p - 1u32)));
        j += limb;
    }
    // R mod p and R^2 mod p for R = 2^bits (word size)
    let r = (&one << bits) % p;
    v.push(r.clone());
    v.push(&r * &r % p);
    v.push(p - &r);
    for i in 0..nrand {
        v.push(BigUint::from_bytes_le(&expand(seed, i as u64, bits / 8 + 8)) % p);
        // random with a zero low limb / zero high limb
        let x = BigUint::from_bytes_le(&expand(seed, 1000 + i as u64, bits / 8));
        v.push(((&x >> limb) << limb) % p);
        v.push((&x % (&one << limb)) % p);
    }
    let mut out: Vec<BigUint> = v.into_iter().map(|x| x % p).collect();
    out.sort();
    out.dedup();
    out
}

fn hash_of<T: Hash>(t: &T) -> u64 {
    let mut h = std::collections::hash_map::DefaultHasher::new();
    t.hash(&mut h);
    h.finish()
}

fn big_to_u128(x: &BigUint) -> u128 {
    let mut b = x.to_bytes_le();
    b.resize(16, 0);
    u128::from_le_bytes(b[..16].try_into().unwrap())
}

/// Raw Montgomery-domain arithmetic of a deployed word size against BigUint.
fn raw_pairs<W: Copy + Into<u128> + TryFrom<u128> + PartialEq + std::fmt::Debug>(f: &RawField<W>, ops: &[BigUint], obs: &mut Obs, classes: bool) -> u64
where
    <W as TryFrom<u128>>::Error: std::fmt::Debug,
{
    let p = BigUint::from(f.prime.into());
    let wbits = f.word_bits;
    let r = (BigUint::one() << wbits) % &p;
    let rinv = r.modpow(&(&p - 2u32), &p);
    let half = wbits / 2;
    let base = BigUint::one() << (if f.split_word { half } else { wbits });
    let mu = BigUint::from(f.mu.into());
    let w = |x: &BigUint| -> W { W::try_from(big_to_u128(x)).unwrap() };
    let mut n = 0u64;
    for x in ops {
        let xw = w(x);
        for y in ops {
            let yw = w(y);
            let got_add = BigUint::from((f.add)(xw, yw).into());
            let got_sub = BigUint::from((f.sub)(xw, yw).into());
            let got_mul = BigUint::from((f.mul)(xw, yw).into());
            n += 3;
            let want_add = (x + y) % &p;
            let want_sub = (x + &p - y) % &p;
            let want_mul = x * y * &rinv % &p;
            if got_add != want_add {
                obs.fail(format!("{}-raw-add", f.name), format!("{}: add({x}, {y}) = {got_add}, expected {want_add}", f.name));
                return n;
            }
            if got_sub != want_sub {
                obs.fail(format!("{}-raw-sub", f.name), format!("{}: sub({x}, {y}) = {got_sub}, expected {want_sub}", f.name));
                return n;
            }
            if got_mul != want_mul {
                obs.fail(format!("{}-raw-mul", f.name), format!("{}: mul({x}, {y}) = {got_mul}, expected {want_mul} (Montgomery domain)", f.name));
                return n;
            }
            if classes {
                // model of the REDC intermediate (for coverage classes only)
                let mut z = x * y;
                let steps = if f.split_word { 2 } else { 1 };
                let mut zero_low = false;
                for _ in 0..steps {
                    let z0 = &z % &base;
                    if z0.is_zero() {
                        zero_low = true;
                    }
                    let ww = (&z0 * &mu) % &base;
                    z = (z + &p * ww) / &base;
                }
                if zero_low {
                    obs.label(format!("{}:mul:low-limb-zero(no-carry)", f.name));
                }
                if z >= (BigUint::one() << wbits) {
                    obs.label(format!("{}:mul:cc=1", f.name));
                }
                if z >= p {
                    obs.label(format!("{}:mul:final-subtraction-taken", f.name));
                } else {
                    obs.label(format!("{}:mul:final-subtraction-not-taken", f.name));
                }
                if x + y >= (BigUint::one() << wbits) {
                    obs.label(format!("{}:add:word-carry", f.name));
                } else if x + y >= p {
                    obs.label(format!("{}:add:reduce-without-carry", f.name));
                }
                if x < y {
                    obs.label(format!("{}:sub:borrow", f.name));
                }
            }
        }
        // unary
        let xw = w(x);
        let checks: [(&str, BigUint, BigUint); 4] = [
            ("neg", BigUint::from((f.neg)(xw).into()), (&p - x) % &p),
            ("residue", BigUint::from((f.residue)(xw).into()), x * &rinv % &p),
            ("montgomery", BigUint::from((f.montgomery)(xw).into()), x * &r % &p),
            ("inv", BigUint::from((f.inv)(xw).into()), {
                let a = x * &rinv % &p;
                a.modpow(&(&p - 2u32), &p) * &r % &p
            }),
        ];
        for (what, got, want) in checks {
            n += 1;
            if got != want {
                obs.fail(format!("{}-raw-{what}", f.name), format!("{}: {what}({x}) = {got}, expected {want}", f.name));
                return n;
            }
        }
    }
    // montgomery() is fed unreduced integers by From<int>: the whole word range
    let full = BigUint::one() << wbits;
    for x in [&full - 1u32, &full - 2u32, p.clone(), &p + 1u32, (&full + &p) / 2u32] {
        if x < full {
            let got = BigUint::from((f.montgomery)(w(&x)).into());
            let want = (&x % &p) * &r % &p;
            n += 1;
            if got != want {
                obs.fail(format!("{}-raw-montgomery-unreduced", f.name), format!("{}: montgomery({x}) = {got}, expected {want}", f.name));
                return n;
            }
        }
    }
    n
}

trait IntField: FieldBig + NttFriendlyFieldElement + Hash
where
    Self::Integer: IntConv,
{
    const WORD_BITS: usize;
    const LIMB: usize;
    const NUM_ROOTS: usize;
    fn int_max() -> u128;
}
impl IntField for FieldPrio2 {
    const WORD_BITS: usize = 32;
    const LIMB: usize = 16;
    const NUM_ROOTS: usize = 20;
    fn int_max() -> u128 {
        u32::MAX as u128
    }
}
impl IntField for Field64 {
    const WORD_BITS: usize = 64;
    const LIMB: usize = 32;
    const NUM_ROOTS: usize = 32;
    fn int_max() -> u128 {
        u64::MAX as u128
    }
}
impl IntField for Field128 {
    const WORD_BITS: usize = 128;
    const LIMB: usize = 64;
    const NUM_ROOTS: usize = 66;
    fn int_max() -> u128 {
        u128::MAX
    }
}

/// The by-reference binary operators (the 32/64/128-bit fields have them; Field255 only has the
/// by-value ones, which stand in).
trait RefOps: Sized {
    fn radd(&self, o: &Self) -> Self;
    fn rsub(&self, o: &Self) -> Self;
    fn rmul(&self, o: &Self) -> Self;
}
macro_rules! ref_ops {
    ($($t:ty),*) => {$(impl RefOps for $t {
        fn radd(&self, o: &Self) -> Self { self + o }
        fn rsub(&self, o: &Self) -> Self { self - o }
        fn rmul(&self, o: &Self) -> Self { self * o }
    })*};
}
ref_ops!(FieldPrio2, Field64, Field128);
impl RefOps for Field255 {
    fn radd(&self, o: &Self) -> Self {
        *self + *o
    }
    fn rsub(&self, o: &Self) -> Self {
        *self - *o
    }
    fn rmul(&self, o: &Self) -> Self {
        *self * *o
    }
}

fn api_common<F: FieldBig + Encode + Decode + RefOps>(ops: &[BigUint], obs: &mut Obs, hashes: Option<&dyn Fn(&F) -> u64>) -> u64
where
    for<'a> &'a F: std::ops::Neg<Output = F>,
{
    let p = F::modulus_big();
    let mut n = 0u64;
    let name = F::NAME;
    let els: Vec<F> = ops.iter().map(F::from_big).collect();
    macro_rules! check {
        ($what:expr, $got:expr, $want:expr, $($arg:tt)*) => {{
            n += 1;
            let got: BigUint = $got;
            let want: BigUint = $want;
            if got != want {
                obs.fail(format!("{name}-{}", $what), format!("{name}: {} = {got}, expected {want}", format!($($arg)*)));
                return n;
            }
            if got >= p {
                obs.fail(format!("{name}-{}-unreduced", $what), format!("{name}: {} is not reduced", format!($($arg)*)));
                return n;
            }
        }};
    }
    for (i, x) in ops.iter().enumerate() {
        let a = els[i];
        // bytes <-> element
        let bytes: Vec<u8> = a.into();
        if BigUint::from_bytes_le(&bytes) != *x || bytes.len() != F::ENCODED_SIZE {
            obs.fail(format!("{name}-to-bytes"), format!("{name}: element {x} encodes to {}", hex(&bytes)));
            return n;
        }
        if a.get_encoded().ok().as_deref() != Some(&bytes[..]) {
            obs.fail(format!("{name}-encode"), format!("{name}: Encode and Into<Vec<u8>> disagree for {x}"));
            return n;
        }
        match F::get_decoded(&bytes) {
            Ok(b) if b == a => {}
            _ => {
                obs.fail(format!("{name}-decode"), format!("{name}: decoding the encoding of {x} does not give it back"));
                return n;
            }
        }
        check!("neg", (-a).to_big(), (&p - x) % &p, "-({x})");
        // every form of negation gives the fully reduced element: equal (==, ct_eq, hash,
        // encoding) to the canonical one, not merely congruent to it
        {
            let canon = F::from_big(&((&p - x) % &p));
            let mut cn = a;
            cn.conditional_negate(Choice::from(1));
            for (form, r) in [("-x", -a), ("-&x", -&a), ("conditional_negate(1)", cn), ("0 - x", F::zero() - a), ("&0 - &x", F::zero().rsub(&a))] {
                n += 1;
                let same_hash = hashes.map(|h| h(&r) == h(&canon)).unwrap_or(true);
                if r != canon || !bool::from(r.ct_eq(&canon)) || !same_hash || r.get_encoded().ok() != canon.get_encoded().ok() {
                    obs.fail(format!("{name}-neg-form"), format!("{name}: {form} for x = {x} is not the canonical element {} (==: {}, ct_eq: {}, same hash: {same_hash}, encoding {})", (&p - x) % &p, r == canon, bool::from(r.ct_eq(&canon)), hex(&r.get_encoded().unwrap_or_default())));
                    return n;
                }
            }
        }
        for (j, y) in ops.iter().enumerate() {
            let b = els[j];
            // by-reference and assigning forms agree with the by-value operators, as elements
            if (i + j) % 3 == 0 {
                let mut aa = a;
                aa += b;
                let mut as_ = a;
                as_ -= b;
                let mut am = a;
                am *= b;
                n += 6;
                if a.radd(&b) != a + b || aa != a + b || a.rsub(&b) != a - b || as_ != a - b || a.rmul(&b) != a * b || am != a * b {
                    obs.fail(format!("{name}-operator-forms"), format!("{name}: the by-reference or assigning form of +, − or × disagrees with the by-value operator for {x}, {y}"));
                    return n;
                }
                let canon = F::from_big(&((x + &p - y) % &p));
                if a - b != canon || !bool::from((a - b).ct_eq(&canon)) {
                    obs.fail(format!("{name}-eq-after-sub"), format!("{name}: {x} - {y} has the right encoding but is not == to the canonical element"));
                    return n;
                }
            }
            check!("add", (a + b).to_big(), (x + y) % &p, "{x} + {y}");
            check!("sub", (a - b).to_big(), (x + &p - y) % &p, "{x} - {y}");
            check!("mul", (a * b).to_big(), (x * y) % &p, "{x} * {y}");
            // results are fully reduced internally: == agrees with the canonical encoding
            let prod = a * b;
            let canon = F::from_big(&((x * y) % &p));
            if prod != canon || !bool::from(prod.ct_eq(&canon)) {
                obs.fail(format!("{name}-eq-after-mul"), format!("{name}: {x} * {y} has the right encoding but is not == to the canonical element (not fully reduced?)"));
                return n;
            }
            let sum = a + b;
            let canon = F::from_big(&((x + y) % &p));
            if sum != canon {
                obs.fail(format!("{name}-eq-after-add"), format!("{name}: {x} + {y} has the right encoding but is not == to the canonical element"));
                return n;
            }
            // equality, ct_eq, encoding and hash are mutually consistent
            let eq_int = x == y;
            n += 1;
            if (a == b) != eq_int || bool::from(a.ct_eq(&b)) != eq_int {
                obs.fail(format!("{name}-eq"), format!("{name}: ({x} == {y}) disagrees with integer equality"));
                return n;
            }
            if let Some(h) = hashes {
                if eq_int && h(&a) != h(&b) {
                    obs.fail(format!("{name}-hash"), format!("{name}: equal elements {x} hash differently"));
                    return n;
                }
                if !eq_int && h(&a) == h(&b) && i < 8 && j < 8 {
                    obs.label("hash-collision-between-unequal-elements");
                }
            }
            // conditional select / negate
            if i % 7 == 0 {
                let s0 = F::conditional_select(&a, &b, Choice::from(0));
                let s1 = F::conditional_select(&a, &b, Choice::from(1));
                if s0 != a || s1 != b {
                    obs.fail(format!("{name}-conditional-select"), format!("{name}: conditional_select({x}, {y}, 0/1) is wrong"));
                    return n;
                }
                let mut c = a;
                c.conditional_negate(Choice::from(0));
                let mut d = a;
                d.conditional_negate(Choice::from(1));
                if c != a || d.to_big() != (&p - x) % &p {
                    obs.fail(format!("{name}-conditional-negate"), format!("{name}: conditional_negate({x}) is wrong"));
                    return n;
                }
                n += 2;
            }
        }
    }
    // non-canonical byte strings are refused; short ones too
    let full = (BigUint::one() << (8 * F::ENCODED_SIZE)) - 1u32;
    for v in [p.clone(), &p + 1u32, full.clone(), (&p + &full) / 2u32] {
        let mut b = v.to_bytes_le();
        b.resize(F::ENCODED_SIZE, 0);
        n += 1;
        if v >= p && (F::try_from(&b[..]).is_ok() || F::get_decoded(&b).is_ok()) {
            obs.fail(format!("{name}-noncanonical-bytes-accepted"), format!("{name}: the byte string of {v} (≥ p) was accepted"));
            return n;
        }
    }
    let pm1 = {
        let mut b = (&p - 1u32).to_bytes_le();
        b.resize(F::ENCODED_SIZE, 0);
        b
    };
    if F::try_from(&pm1[..]).map(|x| x.to_big()).ok() != Some(&p - 1u32) {
        obs.fail(format!("{name}-p-minus-1-refused"), format!("{name}: the byte string of p − 1 was refused"));
        return n;
    }
    if F::try_from(&pm1[..F::ENCODED_SIZE - 1]).is_ok() {
        obs.fail(format!("{name}-short-bytes-accepted"), format!("{name}: a short byte string was accepted"));
    }
    n
}

fn int_api<F: IntField>(ops: &[BigUint], obs: &mut Obs) -> u64
where
    F::Integer: IntConv,
{
    let p = F::modulus_big();
    let name = F::NAME;
    let mut n = 0u64;
    let exps: Vec<u128> = {
        let pm = big_to_u128(&p);
        let mut e = vec![0u128, 1, 2, 3, 5, pm - 2, pm - 1, pm, F::int_max(), F::int_max() - 1];
        for k in (0..F::WORD_BITS).step_by(7) {
            e.push(1u128 << k);
            e.push((1u128 << k) - 1);
        }
        e.retain(|x| *x <= F::int_max());
        e
    };
    for (i, x) in ops.iter().enumerate() {
        let a = F::from_big(x);
        // integer conversions
        let xi: F::Integer = IntConv::from_u128_lossy(big_to_u128(x));
        if F::from(xi) != a {
            obs.fail(format!("{name}-from-int"), format!("{name}: From<int>({x}) is not the element {x}"));
            return n;
        }
        let back: F::Integer = <F::Integer as From<F>>::from(a);
        if back.as_u128x() != big_to_u128(x) {
            obs.fail(format!("{name}-into-int"), format!("{name}: Into<int>({x}) = {}", back.as_u128x()));
            return n;
        }
        n += 2;
        // unreduced integers: x + p if it fits the integer type
        let up = x + &p;
        if up <= BigUint::from(F::int_max()) {
            let ui: F::Integer = IntConv::from_u128_lossy(big_to_u128(&up));
            n += 1;
            if F::from(ui) != a {
                obs.fail(format!("{name}-from-unreduced-int"), format!("{name}: From<int>({up}) is not reduced to {x}"));
                return n;
            }
        }
        if !x.is_zero() {
            let inv = a.inv();
            n += 2;
            if (inv * a) != F::one() || inv.to_big() != x.modpow(&(&p - 2u32), &p) {
                obs.fail(format!("{name}-inv"), format!("{name}: inv({x}) = {}", inv.to_big()));
                return n;
            }
            if i % 5 == 0 {
                let y = &ops[(i * 7 + 3) % ops.len()];
                let q = F::from_big(y) / a;
                n += 1;
                if q.to_big() != y * x.modpow(&(&p - 2u32), &p) % &p {
                    obs.fail(format!("{name}-div"), format!("{name}: {y} / {x} = {}", q.to_big()));
                    return n;
                }
            }
        }
        if i % 3 == 0 || x.is_zero() || x.is_one() || *x == &p - 1u32 {
            for e in &exps {
                let ei: F::Integer = IntConv::from_u128_lossy(*e);
                let got = a.pow(ei).to_big();
                let want = x.modpow(&BigUint::from(*e), &p);
                n += 1;
                if got != want {
                    obs.fail(format!("{name}-pow"), format!("{name}: pow({x}, {e}) = {got}, expected {want}"));
                    return n;
                }
            }
        }
    }
    n
}

fn structure<F: IntField>(obs: &mut Obs) -> u64
where
    F::Integer: IntConv,
{
    let p = F::modulus_big();
    let name = F::NAME;
    let mut n = 0;
    let one = BigUint::one();
    if F::modulus().as_u128x() != big_to_u128(&p) {
        obs.fail(format!("{name}-modulus"), format!("{name}: modulus() = {}", F::modulus().as_u128x()));
        return n;
    }
    if (F::half() + F::half()) != F::one() || F::half().to_big() != (&p + 1u32) / 2u32 {
        obs.fail(format!("{name}-half"), format!("{name}: half() = {}", F::half().to_big()));
        return n;
    }
    if F::zero().to_big() != BigUint::zero() || F::one().to_big() != one {
        obs.fail(format!("{name}-zero-one"), "zero()/one() are wrong");
        return n;
    }
    // generator: order exactly generator_order
    let g = F::generator().to_big();
    let order = BigUint::from(F::generator_order().as_u128x());
    if order != (&one << F::NUM_ROOTS) {
        obs.fail(format!("{name}-generator-order-value"), format!("{name}: generator_order() = {order}"));
        return n;
    }
    if !((&p - 1u32) % &order).is_zero() {
        obs.fail(format!("{name}-order-divides"), "generator order does not divide p − 1");
        return n;
    }
    if g.modpow(&order, &p) != one || g.modpow(&(&order / 2u32), &p) != &p - 1u32 {
        obs.fail(format!("{name}-generator-order"), format!("{name}: generator() = {g} does not have order exactly {order}"));
        return n;
    }
    n += 4;
    // roots
    let table = 20usize.min(F::NUM_ROOTS);
    for l in 0..=table + 3 {
        match F::root(l) {
            Some(r) => {
                if l > table {
                    obs.fail(format!("{name}-root-beyond-table"), format!("{name}: root({l}) is Some beyond the advertised table"));
                    return n;
                }
                let r = r.to_big();
                let ord = &one << l;
                let ok = r.modpow(&ord, &p) == one && (l == 0 || r.modpow(&(&ord / 2u32), &p) == &p - 1u32);
                if !ok {
                    obs.fail(format!("{name}-root-order"), format!("{name}: root({l}) = {r} does not have order exactly 2^{l}"));
                    return n;
                }
                // consistent with the generator and with the next root
                let from_g = g.modpow(&(&one << (F::NUM_ROOTS - l)), &p);
                if from_g != r {
                    obs.fail(format!("{name}-root-vs-generator"), format!("{name}: root({l}) = {r} but generator^(2^{}) = {from_g}", F::NUM_ROOTS - l));
                    return n;
                }
                if l < table {
                    if let Some(nx) = F::root(l + 1) {
                        if (nx * nx).to_big() != r {
                            obs.fail(format!("{name}-root-chain"), format!("{name}: root({})^2 != root({l})", l + 1));
                            return n;
                        }
                    }
                }
                n += 3;
            }
            None => {
                if l <= table {
                    obs.fail(format!("{name}-root-missing"), format!("{name}: root({l}) is None"));
                    return n;
                }
                n += 1;
            }
        }
    }
    n
}

fn field255_extra(ops: &[BigUint], obs: &mut Obs) -> u64 {
    let p = Field255::modulus_big();
    let mut n = 0;
    if (Field255::half() + Field255::half()) != Field255::one() || Field255::half().to_big() != (&p + 1u32) / 2u32 {
        obs.fail("Field255-half", format!("half() = {}", Field255::half().to_big()));
        return n;
    }
    for x in ops {
        let a = Field255::from_big(x);
        let as_u64 = u64::try_from(a);
        n += 1;
        if *x <= BigUint::from(u64::MAX) {
            if as_u64.ok().map(BigUint::from) != Some(x.clone()) {
                obs.fail("Field255-to-u64", format!("u64::try_from({x}) failed or is wrong"));
                return n;
            }
        } else if as_u64.is_ok() {
            obs.fail("Field255-to-u64-overflow", format!("u64::try_from({x}) succeeded"));
            return n;
        }
    }
    for v in [0u64, 1, 2, u64::MAX, u64::MAX - 1, 1 << 51, (1 << 51) - 1, 1 << 63, 19, 18, 20] {
        n += 1;
        if Field255::from(v).to_big() != BigUint::from(v) {
            obs.fail("Field255-from-u64", format!("From<u64>({v}) = {}", Field255::from(v).to_big()));
            return n;
        }
    }
    n
}

fn lattice255(seed: u64) -> Vec<BigUint> {
    let p = Field255::modulus_big();
    let one = BigUint::one();
    let mut v = lattice_big(&p, 255, 51, seed, 24);
    // keep it affordable: lattice_big gives ~900; thin the 2^k±1 family to limb boundaries ±2
    v.retain(|x| {
        let b = x.bits() as usize;
        b % 51 <= 2 || b % 51 >= 49 || b <= 8 || b >= 250 || x.count_ones() > 6
    });
    for d in [1u32, 2, 18, 19, 20, 37, 38] {
        v.push(&p - d);
    }
    for k in 1..5 {
        let b: BigUint = &one << (51 * k);
        v.push(&b - 1u32);
        v.push(b.clone());
        v.push(&b + 1u32);
        v.push((&one << 255) - &b);
    }
    let mut out: Vec<BigUint> = v.into_iter().map(|x| x % &p).collect();
    out.sort();
    out.dedup();
    out
}

impl Check for C09 {
    type Case = Case;
    const ID: &'static str = "C09";
    fn rule(&self) -> String {
        "(enumerated, hook H1) the generic single-word arithmetic instantiated at (u8,u16) for p ∈ {251,241,193,97,13} and at (u16,u32) for p ∈ {65521,61441,40961,12289}, and the generic split-word arithmetic at (u16,u8) for the same 16-bit primes: add/sub/mul over all (x,y) ∈ [0,p)² (8-bit always; 16-bit: lattice rows × all y in quick, all rows in thorough), neg/inv/residue over all x, montgomery over the whole word, pow over all (x,e) at 8 bits and an exponent lattice at 16 bits, against u64 arithmetic mod p in the Montgomery domain; hook constants recomputed from p. (deployed primes) operand set = {0,1,2,3,p−1..p−3,(p±1)/2,2^k,2^k±1, limb masks, zero-low/high-limb values, R, R², −R} ∪ random: all pairs for add/sub/mul on raw Montgomery words (hook) and through the public operators, inv/div/pow/From<int> incl. unreduced/Into<int>/bytes/decode/eq/ct_eq/hash/conditional_select/negate against BigUint; generator and roots of exact order; Field255 with 51-bit-limb boundary operands. Non-trivial = operand pair not both in {0,1}; enumerated pairs are distinct by construction".into()
    }
    fn assumptions(&self) -> Vec<String> {
        vec!["the step from the scaled-down instantiations to the deployed widths rests on the code being the same generic functions (plus lattice/random testing at full width)".into()]
    }
    fn strategy(&self, _tier: Tier) -> BoxedStrategy<Case> {
        (prop_oneof![Just(Fld::F32), Just(Fld::F64), Just(Fld::F128), Just(Fld::F255)], any::<u64>()).prop_map(|(field, seed)| Case::Deployed { field, seed: seed | 1 }).boxed()
    }
    fn num_cases(&self, tier: Tier) -> u64 {
        tier.pick(160, 2000)
    }
    fn enumerate(&self, tier: Tier, shard: usize, nshards: usize, f: &mut dyn FnMut(Case) -> bool) {
        let mut cases = vec![Case::SmallConstants];
        for fld in [Fld::F32, Fld::F64, Fld::F128, Fld::F255] {
            cases.push(Case::Structure { field: fld });
            cases.push(Case::Deployed { field: fld, seed: 0 });
        }
        for idx in 0..small_fields_u8().len() {
            for op in [SmallOp::Add, SmallOp::Sub, SmallOp::Mul, SmallOp::Unary, SmallOp::Pow] {
                cases.push(Case::Small8 { idx, op });
            }
        }
        for (idx, fld) in small_fields_u16().iter().enumerate() {
            for op in [SmallOp::Unary, SmallOp::Pow] {
                for x0 in (0..65536u32).step_by(8192) {
                    cases.push(Case::Small16Range { idx, op, x0, n: 8192 });
                }
            }
            for op in [SmallOp::Add, SmallOp::Sub, SmallOp::Mul] {
                if tier == Tier::Thorough {
                    for x0 in (0..fld.prime as u32).step_by(512) {
                        cases.push(Case::Small16Range { idx, op, x0, n: 512 });
                    }
                } else {
                    let lat = lattice16(fld.prime);
                    for chunk in lat.chunks(16) {
                        cases.push(Case::Small16 { idx, op, xs: chunk.to_vec() });
                    }
                    // plus a deterministic pseudo-random set of rows
                    let rows: Vec<u16> = (0..1024u64).map(|i| (u64::from_le_bytes(expand_arr::<8>(0xA11CE + idx as u64, i)) % fld.prime as u64) as u16).collect();
                    for chunk in rows.chunks(16) {
                        cases.push(Case::Small16 { idx, op, xs: chunk.to_vec() });
                    }
                }
            }
        }
        for (i, c) in cases.into_iter().enumerate() {
            if i % nshards == shard && !f(c) {
                return;
            }
        }
    }
    fn enumerated_space(&self, tier: Tier) -> Option<String> {
        Some(match tier {
            Tier::Quick => "8-bit instantiations: complete operand spaces of every operation; 16-bit instantiations: unary ops and pow-lattice over all x, binary ops over (lattice ∪ 1024 pseudo-random rows) × all y".into(),
            Tier::Thorough => "8-bit and 16-bit instantiations: complete operand spaces ([0,p)² for add/sub/mul, all x for unary, whole word for montgomery)".into(),
        })
    }
    fn run(&self, case: &Case) -> Outcome {
        let mut obs = Obs::new();
        obs.nt();
        match case {
            Case::SmallConstants => {
                obs.label("small-constants");
                let mut n = 0u64;
                macro_rules! consts {
                    ($list:expr, $W:ty) => {
                        for f in $list.iter() {
                            let p = f.prime as u64;
                            let wb = f.word_bits;
                            let r = (1u64 << wb) % p;
                            let mubits = if f.split_word { wb / 2 } else { wb };
                            // mu * p ≡ −1 (mod 2^mubits)
                            let ok_mu = (f.mu as u64 * p + 1) % (1u64 << mubits) == 0 && (f.mu as u64) < (1u64 << mubits);
                            let ok_r2 = f.r2 as u64 == r * r % p;
                            let ok_one = f.roots[0] as u64 == r;
                            let ok_half = (f.half as u64 * 2) % p == r;
                            let ok_mask = f.bit_mask as u64 == (1u64 << (64 - p.leading_zeros())) - 1;
                            let prime = (2..p).take_while(|d| d * d <= p).all(|d| p % d != 0);
                            n += 6;
                            if !(ok_mu && ok_r2 && ok_one && ok_half && ok_mask && prime) {
                                obs.fail(format!("{}-constants", f.name), format!("{}: hook constants inconsistent with p = {p}: mu {ok_mu} r2 {ok_r2} one {ok_one} half {ok_half} mask {ok_mask} prime {prime}", f.name));
                            }
                        }
                    };
                }
                consts!(small_fields_u8(), u8);
                consts!(small_fields_u16(), u16);
                obs.evals = n;
                obs.inner_nontrivial = n;
            }
            Case::Small8 { idx, op } => {
                let fs = small_fields_u8();
                let f = &fs[*idx];
                obs.label(format!("{}:{:?}", f.name, op));
                let n = small_run!(f, u8, *op, 0..=255u8, &mut obs);
                obs.evals = n.max(1);
                obs.inner_nontrivial = n.saturating_sub(4);
            }
            Case::Small16 { idx, op, xs } => {
                let fs = small_fields_u16();
                let f = &fs[*idx];
                obs.label(format!("{}:{:?}", f.name, op));
                let n = small_run!(f, u16, *op, xs.iter().copied(), &mut obs);
                obs.evals = n.max(1);
                obs.inner_nontrivial = n.saturating_sub(4);
            }
            Case::Small16Range { idx, op, x0, n } => {
                let fs = small_fields_u16();
                let f = &fs[*idx];
                obs.label(format!("{}:{:?}", f.name, op));
                let hi = (*x0 + *n).min(65536);
                let cnt = small_run!(f, u16, *op, (*x0..hi).map(|x| x as u16), &mut obs);
                obs.evals = cnt.max(1);
                obs.inner_nontrivial = cnt.saturating_sub(4);
            }
            Case::Structure { field } => {
                obs.label(format!("structure:{field:?}"));
                let n = match field {
                    Fld::F32 => structure::<FieldPrio2>(&mut obs),
                    Fld::F64 => structure::<Field64>(&mut obs),
                    Fld::F128 => structure::<Field128>(&mut obs),
                    Fld::F255 => 1,
                };
                obs.evals = n.max(1);
                obs.inner_nontrivial = n;
            }
            Case::Deployed { field, seed } => {
                obs.label(format!("deployed:{field:?}"));
                let nrand = if *seed == 0 { 16 } else { 40 };
                let mut n = 0;
                match field {
                    Fld::F32 => {
                        let ops = lattice_big(&FieldPrio2::modulus_big(), 32, 16, *seed, nrand);
                        n += raw_pairs(&fp32(), &ops, &mut obs, true);
                        if !obs.failed() {
                            n += api_common::<FieldPrio2>(&ops, &mut obs, Some(&|x: &FieldPrio2| hash_of(x)));
                        }
                        if !obs.failed() {
                            n += int_api::<FieldPrio2>(&ops, &mut obs);
                        }
                    }
                    Fld::F64 => {
                        let ops = lattice_big(&Field64::modulus_big(), 64, 32, *seed, nrand);
                        n += raw_pairs(&fp64(), &ops, &mut obs, true);
                        if !obs.failed() {
                            n += api_common::<Field64>(&ops, &mut obs, Some(&|x: &Field64| hash_of(x)));
                        }
                        if !obs.failed() {
                            n += int_api::<Field64>(&ops, &mut obs);
                        }
                    }
                    Fld::F128 => {
                        let ops = lattice_big(&Field128::modulus_big(), 128, 64, *seed, nrand);
                        n += raw_pairs(&fp128(), &ops, &mut obs, true);
                        if !obs.failed() {
                            n += api_common::<Field128>(&ops, &mut obs, Some(&|x: &Field128| hash_of(x)));
                        }
                        if !obs.failed() {
                            n += int_api::<Field128>(&ops, &mut obs);
                        }
                    }
                    Fld::F255 => {
                        let ops = lattice255(*seed);
                        n += api_common::<Field255>(&ops, &mut obs, None);
                        if !obs.failed() {
                            n += field255_extra(&ops, &mut obs);
                        }
                    }
                }
                obs.evals = n.max(1);
                // the lattice part repeats across seeds: only the seed-0 case counts its pairs as
                // distinct; the others count as one distinct case each (conservative)
                obs.inner_nontrivial = if *seed == 0 { n.saturating_sub(16) } else { 0 };
            }
        }
        obs.finish()
    }
}
