//! Prio3: serialisable instance descriptions, dispatch to the real generic code, a wire-level
//! protocol driver, and the plain-integer reference model.

use crate::harness::guard;
use crate::util::*;
use num_bigint::BigUint;
use num_traits::{One, ToPrimitive, Zero};
use prio::codec::{Encode, ParameterizedDecode};
use prio::field::{Field128, Field64};
use prio::flp::gadgets::{Mul, ParallelSum, ParallelSumMultithreaded};
use prio::flp::types::{Average, Count, Histogram, L1BoundSum, MultihotCountVec, Sum, SumVec};
use prio::flp::Type;
use prio::vdaf::prio3::Prio3;
use prio::vdaf::test_utils::TestVectorClient;
use prio::vdaf::xof::{Xof, XofHmacSha256Aes128, XofTurboShake128};
use prio::vdaf::{Aggregator, Collector, VerifyTransition};
use serde::{Deserialize, Serialize};

#[derive(Clone, Copy, Debug, Serialize, Deserialize, PartialEq, Eq, Hash)]
pub enum FieldKind {
    F64,
    F128,
}
impl FieldKind {
    pub fn modulus(self) -> BigUint {
        match self {
            FieldKind::F64 => BigUint::from(P64),
            FieldKind::F128 => BigUint::from(P128),
        }
    }
    pub fn size(self) -> usize {
        match self {
            FieldKind::F64 => 8,
            FieldKind::F128 => 16,
        }
    }
}

#[derive(Clone, Copy, Debug, Serialize, Deserialize, PartialEq, Eq, Hash)]
pub enum XofKind {
    Turbo,
    Hmac,
    Biased,
}

/// Type instance (type, field, parameters). `mt` selects the multithreaded gadget.
#[derive(Clone, Debug, Serialize, Deserialize, PartialEq, Eq, Hash)]
pub enum Inst {
    Count { f: FieldKind },
    Sum { f: FieldKind, max: U },
    Average { f: FieldKind, max: U },
    SumVec { f: FieldKind, max: U, len: usize, chunk: usize, mt: bool },
    Histogram { f: FieldKind, len: usize, chunk: usize, mt: bool },
    Multihot { f: FieldKind, len: usize, max_weight: usize, chunk: usize, mt: bool },
    L1 { f: FieldKind, max: U, len: usize, chunk: usize },
}

fn bits_of(max: u128) -> usize {
    (128 - max.leading_zeros()) as usize
}

impl Inst {
    pub fn field(&self) -> FieldKind {
        match self {
            Inst::Count { f }
            | Inst::Sum { f, .. }
            | Inst::Average { f, .. }
            | Inst::SumVec { f, .. }
            | Inst::Histogram { f, .. }
            | Inst::Multihot { f, .. }
            | Inst::L1 { f, .. } => *f,
        }
    }
    pub fn name(&self) -> &'static str {
        match self {
            Inst::Count { .. } => "count",
            Inst::Sum { .. } => "sum",
            Inst::Average { .. } => "average",
            Inst::SumVec { .. } => "sumvec",
            Inst::Histogram { .. } => "histogram",
            Inst::Multihot { .. } => "multihot",
            Inst::L1 { .. } => "l1boundsum",
        }
    }
    /// Algorithm id used by the shipped aliases (generic ones get a private-use id).
    pub fn default_alg_id(&self) -> u32 {
        match self {
            Inst::Count { f: FieldKind::F64 } => 1,
            Inst::Sum { f: FieldKind::F64, .. } => 2,
            Inst::SumVec { f: FieldKind::F128, .. } => 3,
            Inst::Histogram { f: FieldKind::F128, .. } => 4,
            Inst::Multihot { f: FieldKind::F128, .. } => 5,
            Inst::L1 { f: FieldKind::F128, .. } => 7,
            _ => 0xFFFF0000,
        }
    }
    /// Length of the encoded measurement (model; compared with the library in C01).
    pub fn input_len(&self) -> usize {
        match self {
            Inst::Count { .. } => 1,
            Inst::Sum { max, .. } | Inst::Average { max, .. } => bits_of(max.0),
            Inst::SumVec { max, len, .. } => bits_of(max.0) * len,
            Inst::Histogram { len, .. } => *len,
            Inst::Multihot { len, max_weight, .. } => len + bits_of(*max_weight as u128),
            Inst::L1 { max, len, .. } => bits_of(max.0) * (len + 1),
        }
    }
    pub fn output_len(&self) -> usize {
        match self {
            Inst::Count { .. } | Inst::Sum { .. } | Inst::Average { .. } => 1,
            Inst::SumVec { len, .. } | Inst::Histogram { len, .. } | Inst::Multihot { len, .. } | Inst::L1 { len, .. } => *len,
        }
    }
    pub fn chunk(&self) -> Option<usize> {
        match self {
            Inst::SumVec { chunk, .. } | Inst::Histogram { chunk, .. } | Inst::Multihot { chunk, .. } | Inst::L1 { chunk, .. } => Some(*chunk),
            _ => None,
        }
    }
    pub fn has_joint_rand(&self) -> bool {
        self.chunk().is_some()
    }
    pub fn gadget_calls(&self) -> usize {
        match self.chunk() {
            Some(c) => self.input_len().div_ceil(c),
            None => self.input_len(),
        }
    }
    pub fn partial_last_chunk(&self) -> bool {
        match self.chunk() {
            Some(c) => self.input_len() % c != 0,
            None => false,
        }
    }
    /// (bits, last_weight) of the modified bit encoding of an integer bounded by `max`.
    pub fn enc_params(max: u128) -> (usize, u128) {
        let bits = bits_of(max);
        let last = max - ((1u128 << (bits - 1)) - 1);
        (bits, last)
    }
}

/// A measurement in a representation independent of the instance type.
#[derive(Clone, Debug, Serialize, Deserialize, PartialEq, Eq, Hash)]
pub enum Meas {
    Bool(bool),
    Int(U),
    Ints(Vec<U>),
    Index(usize),
    Bools(Vec<bool>),
}

// ------------------------------------------------------------------------------------------------
// Reference model on plain integers

/// The canonical encoding the documentation describes, as plain integers (each < p).
pub fn model_encode(inst: &Inst, m: &Meas) -> Option<Vec<BigUint>> {
    fn enc_int(v: u128, max: u128, out: &mut Vec<BigUint>) -> Option<()> {
        if v > max {
            return None;
        }
        let (bits, last) = Inst::enc_params(max);
        let thr = (1u128 << (bits - 1)) - 1;
        let (hi, rest) = if v > thr { (1u32, v - last) } else { (0, v) };
        for i in 0..bits - 1 {
            out.push(BigUint::from(((rest >> i) & 1) as u32));
        }
        out.push(BigUint::from(hi));
        Some(())
    }
    let mut out = vec![];
    match (inst, m) {
        (Inst::Count { .. }, Meas::Bool(b)) => out.push(BigUint::from(*b as u32)),
        (Inst::Sum { max, .. }, Meas::Int(v)) | (Inst::Average { max, .. }, Meas::Int(v)) => enc_int(v.0, max.0, &mut out)?,
        (Inst::SumVec { max, len, .. }, Meas::Ints(vs)) => {
            if vs.len() != *len {
                return None;
            }
            for v in vs {
                enc_int(v.0, max.0, &mut out)?;
            }
        }
        (Inst::Histogram { len, .. }, Meas::Index(i)) => {
            if i >= len {
                return None;
            }
            out = vec![BigUint::zero(); *len];
            out[*i] = BigUint::one();
        }
        (Inst::Multihot { len, max_weight, .. }, Meas::Bools(bs)) => {
            if bs.len() != *len {
                return None;
            }
            let w = bs.iter().filter(|b| **b).count();
            if w > *max_weight {
                return None;
            }
            for b in bs {
                out.push(BigUint::from(*b as u32));
            }
            enc_int(w as u128, *max_weight as u128, &mut out)?;
        }
        (Inst::L1 { max, len, .. }, Meas::Ints(vs)) => {
            if vs.len() != *len {
                return None;
            }
            let mut norm = 0u128;
            for v in vs {
                enc_int(v.0, max.0, &mut out)?;
                norm = norm.checked_add(v.0)?;
            }
            enc_int(norm, max.0, &mut out)?;
        }
        _ => return None,
    }
    Some(out)
}

/// Decode a 0/1 chunk in the modified bit encoding (as a field equation, mod p).
fn dec_int_mod(chunk: &[BigUint], max: u128, p: &BigUint) -> BigUint {
    let (bits, last) = Inst::enc_params(max);
    assert_eq!(chunk.len(), bits);
    let mut acc = BigUint::zero();
    for (i, b) in chunk.iter().enumerate() {
        let w = if i == bits - 1 { BigUint::from(last) } else { BigUint::one() << i };
        acc = (acc + b * w) % p;
    }
    acc
}

/// Validity of a plain encoded vector, written from the types' documentation: all entries are
/// bits, plus the type's weight/norm condition as a field equation.
pub fn model_valid(inst: &Inst, v: &[BigUint]) -> bool {
    let p = inst.field().modulus();
    if v.len() != inst.input_len() {
        return false;
    }
    let one = BigUint::one();
    if !v.iter().all(|x| x.is_zero() || *x == one) {
        return false;
    }
    match inst {
        Inst::Count { .. } | Inst::Sum { .. } | Inst::Average { .. } | Inst::SumVec { .. } => true,
        Inst::Histogram { .. } => v.iter().fold(BigUint::zero(), |a, b| a + b) % &p == one,
        Inst::Multihot { len, max_weight, .. } => {
            let w = v[..*len].iter().fold(BigUint::zero(), |a, b| a + b) % &p;
            w == dec_int_mod(&v[*len..], *max_weight as u128, &p)
        }
        Inst::L1 { max, len, .. } => {
            let bits = bits_of(max.0);
            let mut obs = BigUint::zero();
            for c in v.chunks(bits).take(*len) {
                obs = (obs + dec_int_mod(c, max.0, &p)) % &p;
            }
            obs == dec_int_mod(&v[bits * len..], max.0, &p)
        }
    }
}

/// Coefficients (mod p) of the type's *linear* validity relation Σ wᵢ·vᵢ = const, if it has one
/// (Histogram: Σ vᵢ = 1; MultihotCountVec: Σ buckets − dec(claimed weight) = 0; L1BoundSum:
/// Σ dec(entries) − dec(claimed norm) = 0). An edit v[i] += w_j·t, v[j] −= w_i·t keeps that relation
/// and can only be caught by the bit checks of positions i and j.
pub fn affine_weights(inst: &Inst) -> Option<Vec<BigUint>> {
    let p = inst.field().modulus();
    let int_weights = |max: u128| -> Vec<BigUint> {
        let (bits, last) = Inst::enc_params(max);
        (0..bits).map(|i| if i == bits - 1 { BigUint::from(last) } else { BigUint::one() << i }).collect()
    };
    let neg = |w: &BigUint| (&p - (w % &p)) % &p;
    match inst {
        Inst::Histogram { len, .. } => Some(vec![BigUint::one(); *len]),
        Inst::Multihot { len, max_weight, .. } => {
            let mut w = vec![BigUint::one(); *len];
            w.extend(int_weights(*max_weight as u128).iter().map(neg));
            Some(w)
        }
        Inst::L1 { max, len, .. } => {
            let iw = int_weights(max.0);
            let mut w = vec![];
            for _ in 0..*len {
                w.extend(iw.iter().cloned());
            }
            w.extend(iw.iter().map(neg));
            Some(w)
        }
        _ => None,
    }
}

/// Truncation of a plain encoded vector (mod p).
pub fn model_truncate(inst: &Inst, v: &[BigUint]) -> Vec<BigUint> {
    let p = inst.field().modulus();
    match inst {
        Inst::Count { .. } | Inst::Histogram { .. } => v.to_vec(),
        Inst::Sum { max, .. } | Inst::Average { max, .. } => vec![dec_int_mod(v, max.0, &p)],
        Inst::SumVec { max, .. } => v.chunks(bits_of(max.0)).map(|c| dec_int_mod(c, max.0, &p)).collect(),
        Inst::Multihot { len, .. } => v[..*len].to_vec(),
        Inst::L1 { max, len, .. } => v.chunks(bits_of(max.0)).take(*len).map(|c| dec_int_mod(c, max.0, &p)).collect(),
    }
}

/// Is `out` (an output vector mod p) the truncation of *some* valid encoding?
pub fn model_output_valid(inst: &Inst, out: &[BigUint]) -> bool {
    if out.len() != inst.output_len() {
        return false;
    }
    let one = BigUint::one();
    match inst {
        Inst::Count { .. } => out[0].is_zero() || out[0] == one,
        Inst::Sum { max, .. } | Inst::Average { max, .. } => out[0] <= max.big(),
        Inst::SumVec { max, .. } => out.iter().all(|x| *x <= max.big()),
        Inst::Histogram { .. } => out.iter().all(|x| x.is_zero() || *x == one) && out.iter().filter(|x| **x == one).count() == 1,
        Inst::Multihot { max_weight, .. } => out.iter().all(|x| x.is_zero() || *x == one) && out.iter().filter(|x| **x == one).count() <= *max_weight,
        Inst::L1 { max, .. } => out.iter().all(|x| *x <= max.big()) && out.iter().fold(BigUint::zero(), |a, b| a + b) <= max.big(),
    }
}

#[derive(Clone, Debug, PartialEq)]
pub enum ResultBig {
    Ints(Vec<BigUint>),
    Float(f64),
    /// the documented conversion cannot represent the aggregate (Average above 2^64)
    Unrepresentable,
}

/// Plain aggregate of in-range measurements, reduced mod p.
pub fn model_aggregate(inst: &Inst, ms: &[Meas]) -> ResultBig {
    let p = inst.field().modulus();
    let mut acc = vec![BigUint::zero(); inst.output_len()];
    for m in ms {
        match (inst, m) {
            (Inst::Count { .. }, Meas::Bool(b)) => acc[0] += BigUint::from(*b as u32),
            (Inst::Sum { .. }, Meas::Int(v)) | (Inst::Average { .. }, Meas::Int(v)) => acc[0] += v.big(),
            (Inst::SumVec { .. }, Meas::Ints(vs)) | (Inst::L1 { .. }, Meas::Ints(vs)) => {
                for (a, v) in acc.iter_mut().zip(vs) {
                    *a += v.big();
                }
            }
            (Inst::Histogram { .. }, Meas::Index(i)) => acc[*i] += BigUint::one(),
            (Inst::Multihot { .. }, Meas::Bools(bs)) => {
                for (a, b) in acc.iter_mut().zip(bs) {
                    *a += BigUint::from(*b as u32);
                }
            }
            _ => panic!("measurement kind does not match instance"),
        }
    }
    for a in acc.iter_mut() {
        *a %= &p;
    }
    if let Inst::Average { .. } = inst {
        return match acc[0].to_u64() {
            Some(s) => ResultBig::Float(s as f64 / ms.len() as f64),
            None => ResultBig::Unrepresentable,
        };
    }
    ResultBig::Ints(acc)
}

// ------------------------------------------------------------------------------------------------
// Bridging to the library's types

pub trait IntConv: Copy {
    fn as_u128x(self) -> u128;
    fn from_u128_lossy(x: u128) -> Self;
}
impl IntConv for u32 {
    fn as_u128x(self) -> u128 {
        self as u128
    }
    fn from_u128_lossy(x: u128) -> Self {
        x as u32
    }
}
impl IntConv for u64 {
    fn as_u128x(self) -> u128 {
        self as u128
    }
    fn from_u128_lossy(x: u128) -> Self {
        x as u64
    }
}
impl IntConv for u128 {
    fn as_u128x(self) -> u128 {
        self
    }
    fn from_u128_lossy(x: u128) -> Self {
        x
    }
}

pub trait TypeBridge: Type
where
    Self::Field: FieldBig,
{
    fn to_meas(m: &Meas) -> Self::Measurement;
    fn result_big(r: &Self::AggregateResult) -> ResultBig;
}

macro_rules! bridge_fields {
    ($f:ty) => {
        impl TypeBridge for Count<$f> {
            fn to_meas(m: &Meas) -> bool {
                match m {
                    Meas::Bool(b) => *b,
                    _ => panic!("harness: wrong measurement kind"),
                }
            }
            fn result_big(r: &Self::AggregateResult) -> ResultBig {
                ResultBig::Ints(vec![BigUint::from(r.as_u128x())])
            }
        }
        impl TypeBridge for Sum<$f> {
            fn to_meas(m: &Meas) -> Self::Measurement {
                match m {
                    Meas::Int(v) => IntConv::from_u128_lossy(v.0),
                    _ => panic!("harness: wrong measurement kind"),
                }
            }
            fn result_big(r: &Self::AggregateResult) -> ResultBig {
                ResultBig::Ints(vec![BigUint::from(r.as_u128x())])
            }
        }
        impl TypeBridge for Average<$f> {
            fn to_meas(m: &Meas) -> Self::Measurement {
                match m {
                    Meas::Int(v) => IntConv::from_u128_lossy(v.0),
                    _ => panic!("harness: wrong measurement kind"),
                }
            }
            fn result_big(r: &f64) -> ResultBig {
                ResultBig::Float(*r)
            }
        }
        bridge_ps!($f, ParallelSum<$f, Mul>);
        bridge_ps!($f, ParallelSumMultithreaded<$f, Mul>);
    };
}

macro_rules! bridge_ps {
    ($f:ty, $s:ty) => {
        impl TypeBridge for SumVec<$f, $s> {
            fn to_meas(m: &Meas) -> Self::Measurement {
                match m {
                    Meas::Ints(v) => v.iter().map(|x| IntConv::from_u128_lossy(x.0)).collect(),
                    _ => panic!("harness: wrong measurement kind"),
                }
            }
            fn result_big(r: &Self::AggregateResult) -> ResultBig {
                ResultBig::Ints(r.iter().map(|x| BigUint::from(x.as_u128x())).collect())
            }
        }
        impl TypeBridge for L1BoundSum<$f, $s> {
            fn to_meas(m: &Meas) -> Self::Measurement {
                match m {
                    Meas::Ints(v) => v.iter().map(|x| IntConv::from_u128_lossy(x.0)).collect(),
                    _ => panic!("harness: wrong measurement kind"),
                }
            }
            fn result_big(r: &Self::AggregateResult) -> ResultBig {
                ResultBig::Ints(r.iter().map(|x| BigUint::from(x.as_u128x())).collect())
            }
        }
        impl TypeBridge for Histogram<$f, $s> {
            fn to_meas(m: &Meas) -> usize {
                match m {
                    Meas::Index(i) => *i,
                    _ => panic!("harness: wrong measurement kind"),
                }
            }
            fn result_big(r: &Self::AggregateResult) -> ResultBig {
                ResultBig::Ints(r.iter().map(|x| BigUint::from(x.as_u128x())).collect())
            }
        }
        impl TypeBridge for MultihotCountVec<$f, $s> {
            fn to_meas(m: &Meas) -> Vec<bool> {
                match m {
                    Meas::Bools(b) => b.clone(),
                    _ => panic!("harness: wrong measurement kind"),
                }
            }
            fn result_big(r: &Self::AggregateResult) -> ResultBig {
                ResultBig::Ints(r.iter().map(|x| BigUint::from(x.as_u128x())).collect())
            }
        }
    };
}

bridge_fields!(Field64);
bridge_fields!(Field128);

/// Construct the FLP type for an instance and hand it to a visitor (generic over the concrete
/// type).
pub trait TypeVisitor {
    type Out;
    fn visit<T>(self, typ: T) -> Self::Out
    where
        T: TypeBridge + 'static,
        T::Field: FieldBig;
}

pub fn max_fits(f: FieldKind, max: u128) -> bool {
    match f {
        FieldKind::F64 => max <= u64::MAX as u128,
        FieldKind::F128 => true,
    }
}

/// Err = the library's constructor refused the parameters (message).
pub fn with_type<V: TypeVisitor>(inst: &Inst, v: V) -> Result<V::Out, String> {
    macro_rules! go {
        ($e:expr) => {
            match $e {
                Ok(t) => Ok(v.visit(t)),
                Err(e) => Err(format!("{e}")),
            }
        };
    }
    match inst.clone() {
        Inst::Count { f: FieldKind::F64 } => Ok(v.visit(Count::<Field64>::new())),
        Inst::Count { f: FieldKind::F128 } => Ok(v.visit(Count::<Field128>::new())),
        Inst::Sum { f: FieldKind::F64, max } => go!(Sum::<Field64>::new(max.0 as u64)),
        Inst::Sum { f: FieldKind::F128, max } => go!(Sum::<Field128>::new(max.0)),
        Inst::Average { f: FieldKind::F64, max } => go!(Average::<Field64>::new(max.0 as u64)),
        Inst::Average { f: FieldKind::F128, max } => go!(Average::<Field128>::new(max.0)),
        Inst::SumVec { f: FieldKind::F64, max, len, chunk, mt: false } => go!(SumVec::<Field64, ParallelSum<Field64, Mul>>::new(max.0 as u64, len, chunk)),
        Inst::SumVec { f: FieldKind::F64, max, len, chunk, mt: true } => go!(SumVec::<Field64, ParallelSumMultithreaded<Field64, Mul>>::new(max.0 as u64, len, chunk)),
        Inst::SumVec { f: FieldKind::F128, max, len, chunk, mt: false } => go!(SumVec::<Field128, ParallelSum<Field128, Mul>>::new(max.0, len, chunk)),
        Inst::SumVec { f: FieldKind::F128, max, len, chunk, mt: true } => go!(SumVec::<Field128, ParallelSumMultithreaded<Field128, Mul>>::new(max.0, len, chunk)),
        Inst::Histogram { f: FieldKind::F64, len, chunk, mt: false } => go!(Histogram::<Field64, ParallelSum<Field64, Mul>>::new(len, chunk)),
        Inst::Histogram { f: FieldKind::F64, len, chunk, mt: true } => go!(Histogram::<Field64, ParallelSumMultithreaded<Field64, Mul>>::new(len, chunk)),
        Inst::Histogram { f: FieldKind::F128, len, chunk, mt: false } => go!(Histogram::<Field128, ParallelSum<Field128, Mul>>::new(len, chunk)),
        Inst::Histogram { f: FieldKind::F128, len, chunk, mt: true } => go!(Histogram::<Field128, ParallelSumMultithreaded<Field128, Mul>>::new(len, chunk)),
        Inst::Multihot { f: FieldKind::F64, len, max_weight, chunk, mt: false } => go!(MultihotCountVec::<Field64, ParallelSum<Field64, Mul>>::new(len, max_weight, chunk)),
        Inst::Multihot { f: FieldKind::F64, len, max_weight, chunk, mt: true } => go!(MultihotCountVec::<Field64, ParallelSumMultithreaded<Field64, Mul>>::new(len, max_weight, chunk)),
        Inst::Multihot { f: FieldKind::F128, len, max_weight, chunk, mt: false } => go!(MultihotCountVec::<Field128, ParallelSum<Field128, Mul>>::new(len, max_weight, chunk)),
        Inst::Multihot { f: FieldKind::F128, len, max_weight, chunk, mt: true } => go!(MultihotCountVec::<Field128, ParallelSumMultithreaded<Field128, Mul>>::new(len, max_weight, chunk)),
        Inst::L1 { f: FieldKind::F64, max, len, chunk } => go!(L1BoundSum::<Field64, ParallelSum<Field64, Mul>>::new(max.0 as u64, len, chunk)),
        Inst::L1 { f: FieldKind::F128, max, len, chunk } => go!(L1BoundSum::<Field128, ParallelSum<Field128, Mul>>::new(max.0, len, chunk)),
    }
}

/// Visitor over a fully built Prio3 instance.
pub trait VdafVisitor {
    type Out;
    fn visit<T, P>(self, vdaf: Prio3<T, P, 32>, typ: T) -> Self::Out
    where
        T: TypeBridge + 'static,
        T::Field: FieldBig,
        P: Xof<32> + 'static;
}

#[derive(Clone, Debug, Serialize, Deserialize, PartialEq, Eq, Hash)]
pub struct VdafCfg {
    pub inst: Inst,
    pub xof: XofKind,
    pub n_agg: u8,
    pub n_proofs: u8,
    pub alg_id: u32,
}

impl VdafCfg {
    pub fn rand_len(&self) -> usize {
        if self.inst.has_joint_rand() {
            2 * self.n_agg as usize * 32
        } else {
            self.n_agg as usize * 32
        }
    }
}

pub fn with_vdaf<V: VdafVisitor>(cfg: &VdafCfg, v: V) -> Result<V::Out, String> {
    struct Tv<'a, V> {
        cfg: &'a VdafCfg,
        v: V,
    }
    impl<'a, V: VdafVisitor> TypeVisitor for Tv<'a, V> {
        type Out = Result<V::Out, String>;
        fn visit<T>(self, typ: T) -> Self::Out
        where
            T: TypeBridge + 'static,
            T::Field: FieldBig,
        {
            let c = self.cfg;
            match c.xof {
                XofKind::Turbo => Prio3::<T, XofTurboShake128, 32>::new(c.n_agg, c.n_proofs, c.alg_id, typ.clone()).map(|vd| self.v.visit(vd, typ)).map_err(|e| format!("{e}")),
                XofKind::Hmac => Prio3::<T, XofHmacSha256Aes128, 32>::new(c.n_agg, c.n_proofs, c.alg_id, typ.clone()).map(|vd| self.v.visit(vd, typ)).map_err(|e| format!("{e}")),
                XofKind::Biased => Prio3::<T, BiasedXof, 32>::new(c.n_agg, c.n_proofs, c.alg_id, typ.clone()).map(|vd| self.v.visit(vd, typ)).map_err(|e| format!("{e}")),
            }
        }
    }
    with_type(&cfg.inst, Tv { cfg, v })?
}

// ------------------------------------------------------------------------------------------------
// Wire-level protocol steps. Every step catches panics and reports the stage.

#[derive(Clone, Debug)]
pub enum Fail {
    /// The library returned an error at this stage.
    Err { stage: &'static str, agg: usize, msg: String },
    /// The library panicked at this stage.
    Panic { stage: &'static str, agg: usize, msg: String },
}

impl Fail {
    pub fn is_panic(&self) -> bool {
        matches!(self, Fail::Panic { .. })
    }
    pub fn stage(&self) -> &'static str {
        match self {
            Fail::Err { stage, .. } | Fail::Panic { stage, .. } => stage,
        }
    }
    pub fn describe(&self) -> String {
        match self {
            Fail::Err { stage, agg, msg } => format!("{stage}[agg {agg}] returned Err({msg})"),
            Fail::Panic { stage, agg, msg } => format!("{stage}[agg {agg}] PANICKED: {msg}"),
        }
    }
}

pub fn step<T, E: std::fmt::Display>(stage: &'static str, agg: usize, f: impl FnOnce() -> Result<T, E>) -> Result<T, Fail> {
    match guard(f) {
        Ok(Ok(v)) => Ok(v),
        Ok(Err(e)) => Err(Fail::Err { stage, agg, msg: format!("{e}") }),
        Err(p) => Err(Fail::Panic { stage, agg, msg: p }),
    }
}

/// Everything one aggregator is handed for one report.
#[derive(Clone, Debug)]
pub struct AggInput<const K: usize = 32> {
    pub agg_id: usize,
    pub verify_key: [u8; K],
    pub ctx: Vec<u8>,
    pub nonce: [u8; 16],
    pub public_share: Vec<u8>,
    pub input_share: Vec<u8>,
}

pub struct Sharded {
    pub public_share: Vec<u8>,
    pub input_shares: Vec<Vec<u8>>,
}

/// shard_with_random, then encode everything (checking `encoded_len` on the way).
pub fn shard_wire<V>(vdaf: &V, ctx: &[u8], m: &V::Measurement, nonce: &[u8; 16], rand: &[u8]) -> Result<Sharded, Fail>
where
    V: TestVectorClient<16>,
{
    let (ps, is) = step("shard", 0, || vdaf.shard_with_random(ctx, m, nonce, rand))?;
    let public_share = step("encode_public_share", 0, || ps.get_encoded())?;
    let mut input_shares = vec![];
    for (j, s) in is.iter().enumerate() {
        input_shares.push(step("encode_input_share", j, || s.get_encoded())?);
    }
    Ok(Sharded { public_share, input_shares })
}

pub struct InitOut<V: Aggregator<K, 16>, const K: usize = 32> {
    pub state: V::VerifyState,
    pub verifier_share: Vec<u8>,
}

pub fn init_wire<V, const K: usize>(vdaf: &V, agg_param: &V::AggregationParam, a: &AggInput<K>) -> Result<InitOut<V, K>, Fail>
where
    V: Aggregator<K, 16>,
{
    init_wire_as(vdaf, agg_param, a, a.agg_id)
}

/// As `init_wire`, with the input share decoded under `decode_id` (its position in the report) while
/// verify_init runs under `a.agg_id`.
pub fn init_wire_as<V, const K: usize>(vdaf: &V, agg_param: &V::AggregationParam, a: &AggInput<K>, decode_id: usize) -> Result<InitOut<V, K>, Fail>
where
    V: Aggregator<K, 16>,
{
    let ps = step("decode_public_share", a.agg_id, || V::PublicShare::get_decoded_with_param(vdaf, &a.public_share))?;
    let is = step("decode_input_share", a.agg_id, || V::InputShare::get_decoded_with_param(&(vdaf, decode_id), &a.input_share))?;
    let (state, share) = step("verify_init", a.agg_id, || vdaf.verify_init(&a.verify_key, &a.ctx, a.agg_id, agg_param, &a.nonce, &ps, &is))?;
    let verifier_share = step("encode_verifier_share", a.agg_id, || share.get_encoded())?;
    Ok(InitOut { state, verifier_share })
}

/// As `init_wire_as`, with the decoded input share passed through `edit` before `verify_init` (for
/// shares that only exist as in-memory objects, e.g. one carrying a field its type does not use).
pub fn init_wire_edit<V, const K: usize>(vdaf: &V, agg_param: &V::AggregationParam, a: &AggInput<K>, decode_id: usize, edit: impl FnOnce(V::InputShare) -> V::InputShare) -> Result<InitOut<V, K>, Fail>
where
    V: Aggregator<K, 16>,
{
    let ps = step("decode_public_share", a.agg_id, || V::PublicShare::get_decoded_with_param(vdaf, &a.public_share))?;
    let is = step("decode_input_share", a.agg_id, || V::InputShare::get_decoded_with_param(&(vdaf, decode_id), &a.input_share))?;
    let is = edit(is);
    let (state, share) = step("verify_init", a.agg_id, || vdaf.verify_init(&a.verify_key, &a.ctx, a.agg_id, agg_param, &a.nonce, &ps, &is))?;
    let verifier_share = step("encode_verifier_share", a.agg_id, || share.get_encoded())?;
    Ok(InitOut { state, verifier_share })
}

/// Decode verifier shares (with `state` as decoding parameter) and combine them.
pub fn combine_wire<V, const K: usize>(vdaf: &V, ctx: &[u8], agg_param: &V::AggregationParam, state: &V::VerifyState, shares: &[Vec<u8>]) -> Result<Vec<u8>, Fail>
where
    V: Aggregator<K, 16>,
{
    let mut decoded = vec![];
    for (j, s) in shares.iter().enumerate() {
        decoded.push(step("decode_verifier_share", j, || V::VerifierShare::get_decoded_with_param(state, s))?);
    }
    let msg = step("verifier_shares_to_message", 0, || vdaf.verifier_shares_to_message(ctx, agg_param, decoded))?;
    step("encode_verifier_message", 0, || msg.get_encoded())
}

pub enum NextOut<V: Aggregator<K, 16>, const K: usize = 32> {
    Continue(V::VerifyState, Vec<u8>),
    Finish(Vec<u8>),
}

pub fn next_wire<V, const K: usize>(vdaf: &V, agg: usize, ctx: &[u8], agg_param: &V::AggregationParam, state: V::VerifyState, msg: &[u8]) -> Result<NextOut<V, K>, Fail>
where
    V: Aggregator<K, 16>,
{
    let m = step("decode_verifier_message", agg, || V::VerifierMessage::get_decoded_with_param(&state, msg))?;
    let tr = step("verify_next", agg, || vdaf.verify_next(ctx, state, m))?;
    match tr {
        VerifyTransition::Continue(st, share) => {
            let b = step("encode_verifier_share", agg, || share.get_encoded())?;
            Ok(NextOut::Continue(st, b))
        }
        VerifyTransition::Finish(out) => {
            let b = step("encode_output_share", agg, || out.get_encoded())?;
            // round trip through the decoder as the property demands
            let dec = step("decode_output_share", agg, || V::OutputShare::get_decoded_with_param(&(vdaf, agg_param), &b))?;
            let b2 = step("encode_output_share", agg, || dec.get_encoded())?;
            if b2 != b {
                return Err(Fail::Err { stage: "output_share_roundtrip", agg, msg: "re-encoded output share differs".into() });
            }
            Ok(NextOut::Finish(b))
        }
    }
}

/// Honest one-round verification of one report over the wire. Returns the encoded output shares.
pub fn verify_report_wire<V, const K: usize>(vdaf: &V, agg_param: &V::AggregationParam, inputs: &[AggInput<K>]) -> Result<Vec<Vec<u8>>, Fail>
where
    V: Aggregator<K, 16>,
{
    let mut states = vec![];
    let mut shares = vec![];
    for a in inputs {
        let o = init_wire(vdaf, agg_param, a)?;
        states.push(o.state);
        shares.push(o.verifier_share);
    }
    let mut outs: Vec<Option<Vec<u8>>> = vec![None; inputs.len()];
    let mut round = 0usize;
    loop {
        // decode the verifier shares with *another* aggregator's state, as the trait allows
        let dec_state = &states[(round + 1) % states.len()];
        let msg = combine_wire(vdaf, &inputs[0].ctx, agg_param, dec_state, &shares)?;
        let mut next_states = vec![];
        let mut next_shares = vec![];
        for (j, st) in states.into_iter().enumerate() {
            match next_wire(vdaf, j, &inputs[j].ctx, agg_param, st, &msg)? {
                NextOut::Continue(s, b) => {
                    next_states.push(s);
                    next_shares.push(b);
                }
                NextOut::Finish(b) => outs[j] = Some(b),
            }
        }
        if next_states.is_empty() {
            break;
        }
        if next_states.len() != inputs.len() {
            return Err(Fail::Err { stage: "rounds", agg: 0, msg: "aggregators did not finish in the same round".into() });
        }
        states = next_states;
        shares = next_shares;
        round += 1;
        if round > 8 {
            return Err(Fail::Err { stage: "rounds", agg: 0, msg: "too many rounds".into() });
        }
    }
    Ok(outs.into_iter().map(|o| o.unwrap()).collect())
}

/// Aggregate encoded output shares per aggregator through the wire, then unshard.
pub fn aggregate_unshard_wire<V, const K: usize>(vdaf: &V, agg_param: &V::AggregationParam, per_agg_out_shares: &[Vec<Vec<u8>>], num_measurements: usize) -> Result<V::AggregateResult, Fail>
where
    V: Aggregator<K, 16> + Collector,
{
    let mut agg_shares = vec![];
    for (j, outs) in per_agg_out_shares.iter().enumerate() {
        let mut dec = vec![];
        for o in outs {
            dec.push(step("decode_output_share", j, || V::OutputShare::get_decoded_with_param(&(vdaf, agg_param), o))?);
        }
        let a = step("aggregate", j, || vdaf.aggregate(agg_param, dec))?;
        let b = step("encode_aggregate_share", j, || a.get_encoded())?;
        if let Some(n) = a.encoded_len() {
            if n != b.len() {
                return Err(Fail::Err { stage: "aggregate_share_encoded_len", agg: j, msg: format!("advertised {n}, produced {}", b.len()) });
            }
        }
        let a2 = step("decode_aggregate_share", j, || V::AggregateShare::get_decoded_with_param(&(vdaf, agg_param), &b))?;
        agg_shares.push(a2);
    }
    step("unshard", 0, || vdaf.unshard(agg_param, agg_shares, num_measurements))
}
