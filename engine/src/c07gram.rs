//! Grammar of the wire formats: builds canonical encodings and strings with one known defect per
//! (type, parameter). Shared by C07, C08 and the fuzz seed corpus.

use crate::codec::*;
use crate::gen::*;
use crate::harness::*;
use crate::p3::*;
use crate::util::*;
use num_bigint::BigUint;
use num_traits::{One, Zero};
use proptest::prelude::*;
use serde::{Deserialize, Serialize};

#[derive(Clone, Copy, Debug, Serialize, Deserialize, PartialEq, Eq)]
pub enum Expect {
    /// the grammar built a canonical encoding: must be accepted and re-encode to itself
    Accept,
    /// the grammar knows the string is non-canonical / malformed: must be rejected
    Reject,
    /// only the implication "accepted ⇒ re-encodes to the same bytes" is checked
    Unknown,
}

// ------------------------------------------------------------------------------------------------
// Grammar-based generation of near-valid strings

pub struct Built {
    pub bytes: Vec<u8>,
    pub expect: Expect,
    pub why: String,
}

struct Rnd {
    seed: u64,
    ctr: u64,
}
impl Rnd {
    fn new(seed: u64) -> Self {
        Rnd { seed, ctr: 0 }
    }
    fn u64(&mut self) -> u64 {
        self.ctr += 1;
        u64::from_le_bytes(expand_arr::<8>(self.seed, self.ctr))
    }
    fn below(&mut self, n: usize) -> usize {
        if n == 0 {
            0
        } else {
            (self.u64() % n as u64) as usize
        }
    }
    fn bytes(&mut self, n: usize) -> Vec<u8> {
        self.ctr += 1;
        expand(self.seed, self.ctr ^ 0x5555_0000, n)
    }
    fn chance(&mut self, num: u64, den: u64) -> bool {
        self.u64() % den < num
    }
}

fn elem_class(f: FieldId, class: usize, r: &mut Rnd) -> (Vec<u8>, bool) {
    // returns (bytes, canonical)
    let p = f.modulus();
    let sz = f.size();
    let full = (BigUint::one() << (8 * sz)) - BigUint::one();
    let (v, canon): (BigUint, bool) = match class {
        0 => (BigUint::zero(), true),
        1 => (BigUint::one(), true),
        2 => (&p - 1u32, true),
        3 => (p.clone(), false),
        4 => (&p + 1u32, false),
        5 => (full, false),
        6 => {
            // top bit set on an otherwise small value (Field255 masks only when *sampling*)
            (BigUint::one() << (8 * sz - 1), f != FieldId::F255 && (BigUint::one() << (8 * sz - 1)) < p)
        }
        8 => {
            // not below the modulus, spread over the whole non-canonical band [p, 2^(8·size)): for
            // Field255 a canonical value with bit 255 set (what a masking parser would let through),
            // elsewhere p + random
            if f == FieldId::F255 {
                ((BigUint::from_bytes_le(&r.bytes(sz + 8)) % &p) + (BigUint::one() << 255usize), false)
            } else {
                let band = &full + 1u32 - &p;
                (&p + (BigUint::from_bytes_le(&r.bytes(sz + 8)) % band), false)
            }
        }
        _ => (BigUint::from_bytes_le(&r.bytes(sz + 8)) % &p, true),
    };
    let canon = if class == 6 { v < p } else { canon };
    (elem_bytes(f, &v), canon)
}

/// Build a string from a fixed layout. `bad` = probability (in 1/16) that a defect is injected.
pub fn build_from_layout(pieces: &[Piece], seed: u64, bad16: u64) -> Built {
    let mut r = Rnd::new(seed);
    let mut out = vec![];
    let mut expect = Expect::Accept;
    let mut why = String::from("canonical");
    let inject = r.chance(bad16, 16);
    // choose which kind of defect
    let total_elems: usize = pieces.iter().map(|p| if let Piece::Elems(_, n) = p { *n } else { 0 }).sum();
    let has_bits = pieces.iter().any(|p| matches!(p, Piece::PackedBits(b) if b % 8 != 0));
    let has_tag = pieces.iter().any(|p| matches!(p, Piece::Tag(_)));
    let mut kinds = vec!["truncate", "extend"];
    if total_elems > 0 {
        kinds.push("elem");
        kinds.push("elem");
    }
    if has_bits {
        kinds.push("padding");
    }
    if has_tag {
        kinds.push("tag");
    }
    let defect = if inject { kinds[r.below(kinds.len())] } else { "" };
    let bad_elem_index = if defect == "elem" { r.below(total_elems) } else { usize::MAX };
    let mut elem_idx = 0usize;
    for p in pieces {
        match p {
            Piece::Elems(f, n) => {
                // a handful of edge positions, the rest random canonical
                for _ in 0..*n {
                    let (b, canon) = if elem_idx == bad_elem_index {
                        let cls = [3usize, 4, 5, 3, 6, 8, 8, 8][r.below(8)];
                        let (b, c) = elem_class(*f, cls, &mut r);
                        (b, c)
                    } else if r.chance(1, 8) {
                        elem_class(*f, r.below(3), &mut r)
                    } else {
                        elem_class(*f, 7, &mut r)
                    };
                    if !canon {
                        expect = Expect::Reject;
                        why = format!("element {elem_idx} is not below the modulus");
                    }
                    out.extend_from_slice(&b);
                    elem_idx += 1;
                }
            }
            Piece::Opaque(n) => out.extend_from_slice(&r.bytes(*n)),
            Piece::Tag(valid) => {
                if defect == "tag" {
                    let mut t = (r.u64() & 0xff) as u8;
                    while valid.contains(&t) {
                        t = t.wrapping_add(1);
                    }
                    out.push(t);
                    expect = Expect::Reject;
                    why = format!("unknown tag {t}");
                } else {
                    out.push(valid[r.below(valid.len())]);
                }
            }
            Piece::PackedBits(bits) => {
                let nbytes = bits.div_ceil(8);
                let mut b = r.bytes(nbytes);
                if bits % 8 != 0 {
                    let keep = (1u16 << (bits % 8)) - 1;
                    b[nbytes - 1] &= keep as u8;
                    if defect == "padding" {
                        let pos = bits % 8 + r.below(8 - bits % 8);
                        b[nbytes - 1] |= 1 << pos;
                        expect = Expect::Reject;
                        why = format!("non-zero padding bit {pos} in the packed control bits");
                    }
                }
                out.extend_from_slice(&b);
            }
        }
    }
    if defect == "truncate" && !out.is_empty() {
        let k = 1 + r.below(out.len().min(40));
        out.truncate(out.len() - k);
        expect = Expect::Reject;
        why = format!("truncated by {k} bytes");
    } else if defect == "truncate" || defect == "extend" {
        let k = 1 + r.below(3);
        out.extend_from_slice(&r.bytes(k));
        expect = Expect::Reject;
        why = format!("{k} trailing bytes");
    }
    Built { bytes: out, expect, why }
}

fn bits_to_prefix_bytes(v: u128, len: usize) -> Vec<u8> {
    // MSB-first packing of the `len` low bits of v (bit len-1 first)
    let mut out = vec![0u8; len.div_ceil(8)];
    for i in 0..len {
        let shift = len - 1 - i;
        let bit = if shift < 128 { (v >> shift) & 1 } else { 0 };
        if bit == 1 {
            out[i / 8] |= 0x80 >> (i % 8);
        }
    }
    out
}

pub fn build_agg_param(seed: u64, bad16: u64) -> Built {
    let mut r = Rnd::new(seed);
    let level: usize = match r.below(8) {
        0 => 0,
        1 => 7,
        2 => 8,
        3 => 15,
        4 => r.below(300),
        _ => r.below(24),
    };
    let len = level + 1;
    let cap: u128 = if len >= 20 { 1 << 20 } else { 1u128 << len };
    let n = 1 + r.below((cap.min(12)) as usize);
    let mut vals: Vec<u128> = vec![];
    while vals.len() < n {
        let v = (r.u64() as u128) % cap;
        // spread over the high bits for long prefixes
        let v = if len > 20 { v << (len.min(100) - 20) } else { v };
        if !vals.contains(&v) {
            vals.push(v);
        }
    }
    vals.sort();
    let mut expect = Expect::Accept;
    let mut why = String::from("canonical");
    let mut declared = n as u32;
    let inject = r.chance(bad16, 16);
    let mut trailing_bit: Option<usize> = None;
    let mut extra: Vec<u8> = vec![];
    let mut truncate = 0usize;
    if inject {
        match r.below(8) {
            0 if n >= 2 => {
                vals.swap(0, n - 1);
                expect = Expect::Reject;
                why = "prefixes not in lexicographic order".into();
            }
            1 => {
                let d = vals[r.below(n)];
                vals.push(d);
                vals.sort();
                declared += 1;
                expect = Expect::Reject;
                why = "duplicate prefix".into();
            }
            2 if len % 8 != 0 => {
                trailing_bit = Some(r.below(n));
                expect = Expect::Reject;
                why = "non-zero trailing bits in a prefix".into();
            }
            3 => {
                declared += 1;
                expect = Expect::Reject;
                why = "count larger than the prefixes present".into();
            }
            4 => {
                declared -= 1;
                expect = Expect::Reject;
                why = if declared == 0 { "zero prefixes with bytes left over".into() } else { "count smaller than the prefixes present (trailing bytes)".into() };
            }
            5 => {
                let k = 1 + r.below(2);
                extra = r.bytes(k);
                expect = Expect::Reject;
                why = "trailing bytes".into();
            }
            6 => {
                truncate = 1 + r.below(3);
                expect = Expect::Reject;
                why = "truncated".into();
            }
            _ => {
                vals.clear();
                declared = 0;
                expect = Expect::Reject;
                why = "empty prefix list".into();
            }
        }
    }
    let mut out = vec![];
    out.extend_from_slice(&(level as u16).to_be_bytes());
    out.extend_from_slice(&declared.to_be_bytes());
    for (i, v) in vals.iter().enumerate() {
        let mut b = bits_to_prefix_bytes(*v, len);
        if trailing_bit == Some(i) {
            let unused = 8 - len % 8;
            let pos = r.below(unused);
            *b.last_mut().unwrap() |= 1 << pos;
        }
        out.extend_from_slice(&b);
    }
    out.extend_from_slice(&extra);
    let nl = out.len().saturating_sub(truncate);
    out.truncate(nl);
    Built { bytes: out, expect, why }
}

pub fn build_pop_state(seed: u64, bad16: u64) -> (Built, Option<PopStateKind>) {
    let mut r = Rnd::new(seed);
    let leaf = r.chance(1, 2);
    let round2 = r.chance(1, 2);
    let f = if leaf { FieldId::F255 } else { FieldId::F64 };
    let n = r.below(6);
    let mut expect = Expect::Accept;
    let mut why = String::from("canonical");
    let inject = r.chance(bad16, 16);
    let defect = if inject { r.below(6) } else { 99 };
    let mut out = vec![];
    let mut kind = Some(match (leaf, round2) {
        (false, false) => PopStateKind::InnerR1,
        (false, true) => PopStateKind::InnerR2,
        (true, false) => PopStateKind::LeafR1,
        (true, true) => PopStateKind::LeafR2,
    });
    let reject = |w: &str, expect: &mut Expect, why: &mut String| {
        *expect = Expect::Reject;
        *why = w.into();
    };
    if defect == 0 {
        out.push(2 + (r.u64() % 254) as u8);
        reject("unknown state variant tag", &mut expect, &mut why);
        kind = None;
    } else {
        out.push(leaf as u8);
    }
    if defect == 1 {
        out.push(2 + (r.u64() % 254) as u8);
        reject("unknown sketch state tag", &mut expect, &mut why);
        kind = None;
    } else {
        out.push(round2 as u8);
    }
    if !round2 {
        for _ in 0..2 {
            let (b, _) = elem_class(f, if r.chance(1, 4) { r.below(3) } else { 7 }, &mut r);
            out.extend_from_slice(&b);
        }
    }
    let declared = match defect {
        2 => {
            reject("output share count larger than the elements present", &mut expect, &mut why);
            n as u32 + 1
        }
        3 if n > 0 => {
            reject("output share count smaller than the elements present", &mut expect, &mut why);
            n as u32 - 1
        }
        _ => n as u32,
    };
    out.extend_from_slice(&declared.to_be_bytes());
    let bad_elem = if defect == 4 && n > 0 { r.below(n) } else { usize::MAX };
    for i in 0..n {
        let (b, canon) = if i == bad_elem { elem_class(f, [3, 4, 5, 6, 8, 8][r.below(6)], &mut r) } else { elem_class(f, 7, &mut r) };
        if !canon {
            reject("output share element not below the modulus", &mut expect, &mut why);
        }
        out.extend_from_slice(&b);
    }
    if defect == 5 {
        let k = 1 + r.below(2);
        out.extend_from_slice(&r.bytes(k));
        reject("trailing bytes", &mut expect, &mut why);
    }
    if expect == Expect::Reject {
        kind = kind.filter(|_| false);
    }
    (Built { bytes: out, expect, why }, kind)
}

pub fn build_pop_continuation(seed: u64, bad16: u64) -> Built {
    // state (canonical) followed by the message its sketch state calls for
    let (st, kind) = build_pop_state(seed, 0);
    let mut r = Rnd::new(seed ^ 0xabcdef);
    let mut out = st.bytes;
    let mut expect = Expect::Accept;
    let mut why = String::from("canonical");
    let msg_layout = layout(&Spec::PopMessage(kind.expect("canonical state has a kind"))).unwrap();
    let m = build_from_layout(&msg_layout, r.u64(), bad16);
    out.extend_from_slice(&m.bytes);
    if m.expect != Expect::Accept {
        expect = Expect::Reject;
        why = format!("verifier message part: {}", m.why);
        // a truncated/extended message part of an empty message layout is trailing bytes: still reject
    }
    Built { bytes: out, expect, why }
}

pub fn build_pingpong(seed: u64, bad16: u64) -> Built {
    let mut r = Rnd::new(seed);
    let tag = r.below(3) as u8;
    let nblobs = if tag == 1 { 2 } else { 1 };
    let mut expect = Expect::Accept;
    let mut why = String::from("canonical");
    let inject = r.chance(bad16, 16);
    let defect = if inject { r.below(5) } else { 99 };
    let mut out = vec![];
    if defect == 0 {
        out.push(3 + (r.u64() % 253) as u8);
        expect = Expect::Reject;
        why = "unknown message type".into();
    } else {
        out.push(tag);
    }
    for i in 0..nblobs {
        let n = match r.below(4) {
            0 => 0,
            1 => 1,
            _ => r.below(70),
        };
        let declared: u32 = match defect {
            1 if i == nblobs - 1 => {
                expect = Expect::Reject;
                why = "length prefix exceeds the remaining bytes".into();
                n as u32 + 1 + r.below(3) as u32
            }
            2 if i == nblobs - 1 && n > 0 => {
                expect = Expect::Reject;
                why = "length prefix shorter than the payload (trailing bytes)".into();
                n as u32 - 1
            }
            3 if i == 0 => {
                expect = Expect::Reject;
                why = "extreme length prefix".into();
                [0xFFFF_FFFFu32, 0x8000_0000, 0x7FFF_FFFF, 0x0100_0000][r.below(4)]
            }
            _ => n as u32,
        };
        out.extend_from_slice(&declared.to_be_bytes());
        out.extend_from_slice(&r.bytes(n));
    }
    if defect == 4 {
        let k = 1 + r.below(2);
        out.extend_from_slice(&r.bytes(k));
        expect = Expect::Reject;
        why = "trailing bytes".into();
    }
    Built { bytes: out, expect, why }
}

pub fn build(spec: &Spec, seed: u64, bad16: u64) -> Built {
    match layout(spec) {
        Some(l) => build_from_layout(&l, seed, bad16),
        None => match spec {
            Spec::PopAggParam => build_agg_param(seed, bad16),
            Spec::PopState { .. } => build_pop_state(seed, bad16).0,
            Spec::PopContinuation { .. } => build_pop_continuation(seed, bad16),
            Spec::PingPongMessage => build_pingpong(seed, bad16),
            _ => unreachable!(),
        },
    }
}

// ------------------------------------------------------------------------------------------------
// Spec generation

pub fn small_bits() -> BoxedStrategy<usize> {
    prop_oneof![
        4 => 1usize..=8,
        3 => 9usize..=40,
        1 => prop_oneof![Just(63usize), Just(64), Just(65), Just(128), Just(300)],
    ]
    .boxed()
}

pub fn spec_strategy() -> BoxedStrategy<Spec> {
    let cfg = || cfg_strategy(Limits::small());
    let scalars = prop_oneof![
        Just(Spec::U8),
        Just(Spec::U16),
        Just(Spec::U32),
        Just(Spec::U64),
        Just(Spec::Unit),
        Just(Spec::Seed16),
        Just(Spec::Seed32),
        Just(Spec::F32),
        Just(Spec::F64),
        Just(Spec::F128),
        Just(Spec::F255),
        Just(Spec::PopValue64),
        Just(Spec::PopValue255),
        Just(Spec::Prio2VerifierShare),
    ];
    let p3 = (cfg(), any::<u8>(), 0usize..8).prop_map(|(c, a, which)| {
        let agg = (a as usize) % c.n_agg as usize;
        match which {
            0 => Spec::P3Public(c),
            1 => Spec::P3Input(c, agg),
            2 => Spec::P3VerifierShare(c, agg),
            3 => Spec::P3VerifierMessage(c, agg),
            4 => Spec::P3State(c, agg),
            5 => Spec::P3Output(c),
            6 => Spec::P3Agg(c),
            _ => Spec::P3Continuation(c, agg),
        }
    });
    let kinds = prop_oneof![Just(PopStateKind::InnerR1), Just(PopStateKind::InnerR2), Just(PopStateKind::LeafR1), Just(PopStateKind::LeafR2)];
    let idpfk = prop_oneof![Just(IdpfKind::Poplar), Just(IdpfKind::F64F255), Just(IdpfKind::F128F128), Just(IdpfKind::F32F64)];
    let pop = prop_oneof![
        3 => (idpfk, small_bits()).prop_map(|(kind, bits)| Spec::IdpfPublic { kind, bits }),
        3 => (small_bits(), any::<bool>(), 0usize..2).prop_map(|(bits, aes, agg)| Spec::PopInput { bits, aes, agg }),
        3 => (small_bits(), 0usize..2).prop_map(|(bits, agg)| Spec::PopState { bits, agg }),
        2 => kinds.clone().prop_map(Spec::PopMessage),
        2 => kinds.prop_map(Spec::PopFieldVecByState),
        3 => (small_bits(), any::<u16>(), 1usize..=6, any::<bool>()).prop_map(|(bits, l, n, leaf)| {
            let level = if leaf { bits - 1 } else { idx16(l, bits) };
            let cap = if level + 1 >= 3 { 6 } else { 1usize << (level + 1) };
            Spec::PopFieldVecByParam { bits, level, n: n.min(cap) }
        }),
        4 => Just(Spec::PopAggParam),
        2 => (small_bits(), 0usize..2).prop_map(|(bits, agg)| Spec::PopContinuation { bits, agg }),
    ];
    let prio2len = prop_oneof![1usize..=9, Just(14usize), Just(15), Just(16), Just(30), Just(31), Just(32), Just(63), Just(64)];
    let prio2 = (prio2len, 0usize..2, 0usize..5).prop_map(|(len, agg, which)| match which {
        0 => Spec::Prio2Input { len, agg },
        1 => Spec::Prio2State { len, agg },
        2 => Spec::Prio2Output { len },
        3 => Spec::Prio2Agg { len },
        _ => Spec::Prio2Continuation { len, agg },
    });
    prop_oneof![
        2 => scalars,
        6 => p3,
        6 => pop,
        2 => prio2,
        2 => Just(Spec::PingPongMessage),
    ]
    .boxed()
}


