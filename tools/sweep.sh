#!/bin/bash
# tools/sweep.sh <nslots> [<seeded-id> ...]
# Runs the quick tier of the checks named in seeded/<id>/meta.json against every kept seeded change
# (or the ones given), in <nslots> parallel scratch slots under /tmp/pvslot, and writes
# seeded/<id>/detection.txt. /repo is never touched. Afterwards: tools/sweep_report.py.
set -u
n="$1"; shift
cd /verif/seeded || exit 2
if [ $# -gt 0 ]; then ids=("$@"); else ids=($(ls -d C??-m? | sort)); fi
worker() {
    w=$1
    i=0
    for id in "${ids[@]}"; do
        if [ $((i % n)) -eq "$w" ]; then
            checks=$(python3 -c "import json;print(' '.join(json.load(open('/verif/seeded/$id/meta.json'))['checks_run']))")
            /verif/tools/slot.sh "s$((w + ${SLOT_BASE:-0}))" "/verif/seeded/$id/patch.diff" $checks 2>&1 | sed "s/^SLOT s$((w + ${SLOT_BASE:-0}))/DETECT $id/" > "/verif/seeded/$id/detection.txt.new"
            mv "/verif/seeded/$id/detection.txt.new" "/verif/seeded/$id/detection.txt"
            echo "$(date +%H:%M:%S) done $id: $(tr '\n' ';' < /verif/seeded/$id/detection.txt | cut -c1-200)"
        fi
        i=$((i+1))
    done
}
for w in $(seq 0 $((n-1))); do worker $w & done
wait
