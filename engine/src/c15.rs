//! C15 — DP noise samplers realise the exact discrete Laplace/Gaussian laws, scaled right (hook H3).

use crate::harness::*;
use crate::util::*;
use num_bigint::{BigInt, BigUint, Sign};
use num_integer::Integer;
use num_rational::Ratio;
use num_traits::{One, Signed, ToPrimitive, Zero};
use prio::dp::distributions::PureDpDiscreteLaplace;
use prio::dp::{DifferentialPrivacyStrategy, PureDpBudget, Rational};
use prio::field::{Field128, Field64};
use prio::flp::gadgets::{Mul, ParallelSum};
use prio::flp::types::{Histogram, L1BoundSum, SumVec};
use prio::vdaf::prio3::Prio3;
use prio::vdaf::xof::XofTurboShake128;
use prio::vdaf::{AggregateShare, AggregatorWithNoise};
use prio::verif_hooks::dp::{self as hk, Answer, Layer};
use proptest::prelude::*;
use rand_core::TryRng;
use serde::{Deserialize, Serialize};
use std::cell::RefCell;
use std::convert::Infallible;
use std::rc::Rc;

pub struct C15;

type Q = Ratio<BigUint>;

fn q(n: u128, d: u128) -> Q {
    Ratio::new(BigUint::from(n), BigUint::from(d))
}

/// An RNG that must never be read: every layer below is intercepted.
#[derive(Default)]
struct NoRng {
    reads: usize,
}
impl TryRng for NoRng {
    type Error = Infallible;
    fn try_next_u32(&mut self) -> Result<u32, Infallible> {
        self.reads += 1;
        Ok(0)
    }
    fn try_next_u64(&mut self) -> Result<u64, Infallible> {
        self.reads += 1;
        Ok(0)
    }
    fn try_fill_bytes(&mut self, d: &mut [u8]) -> Result<(), Infallible> {
        self.reads += 1;
        d.fill(0);
        Ok(())
    }
}

#[derive(Clone, Copy, Debug, Serialize, Deserialize, PartialEq, Eq)]
pub enum Dist {
    Laplace,
    Gaussian,
}

#[derive(Clone, Debug, Serialize, Deserialize)]
pub enum Case {
    /// layer 1: real sampler vs transcription of CKS20 Algorithms 1-3 on a common tape of uniform draws
    Transcription { dist: Dist, n: u64, d: u64, tape: Vec<u16>, filler: u64 },
    /// layer 2a: Bernoulli(n/d): which uniform draws give `true`
    Bernoulli { n: u64, d: u64 },
    /// layer 2b: Bernoulli(exp(-n/d)), n ≤ d: argument sequence and parity rule, Taylor identity
    BernExp1 { n: u64, d: u64, depth: u8 },
    /// layer 2c: Bernoulli(exp(-n/d)) for any n/d: factor structure
    BernExp { n: u64, d: u64, fail_at: u8 },
    /// layer 2d: geometric: rejected u draws, accepted u, v successes
    Geometric { s: u64, t: u64, rejected: Vec<u16>, u: u16, v: u8 },
    /// layer 2e: Laplace: sign / zero handling
    LaplaceLayer { s: u64, t: u64, tries: Vec<(bool, u16)> },
    /// layer 2f: Gaussian: proposals and acceptance argument
    GaussianLayer { n: u64, d: u64, proposals: Vec<i32> },
    /// layer 3: the whole path tree down to a residual mass, against the closed-form law
    Tree { kind: TreeKind, n: u64, d: u64, log2_residual: u8 },
    /// layer 4: uniform big integers through the public Rng interface, small bounds: all candidates
    UniformSmall { bound: u32 },
    /// layer 4: large bounds, word model, rejections consume fresh words
    UniformLarge { bits: u16, seed: u64, rejections: u8 },
    /// layer 5: noise application
    Noise {
        typ: u8,
        f128: bool,
        max: u64,
        len: u8,
        eps_n: u64,
        eps_d: u64,
        share_seed: u64,
        noises: Vec<i64>,
        huge: bool,
        /// L1BoundSum only: 0 = `max` as is; 1 = p−1−max%1000; 2 = 2^(W−1)+max%1000; 3 = 2^(W−1)−1−max%1000;
        /// 4 = 2^(W−1) (W = width of the field's integer type)
        #[serde(default)]
        max_shape: u8,
        /// selects the measurement count handed to add_noise_to_agg_share: 1, 0, 2, 1000, usize::MAX
        #[serde(default)]
        count_sel: u8,
    },
}

// ------------------------------------------------------------------------------------------------
// Transcription of Canonne-Kamath-Steinke, Algorithms 1-3, as a function of a source of uniform draws

trait Uni {
    /// uniform integer in [low, high)
    fn draw(&mut self, low: &BigUint, high: &BigUint) -> BigUint;
}

fn ref_bernoulli(g: &Q, u: &mut dyn Uni) -> bool {
    let s = u.draw(&BigUint::one(), &(g.denom() + 1u32));
    s <= *g.numer()
}

fn ref_bernoulli_exp1(g: &Q, u: &mut dyn Uni) -> bool {
    let mut k = BigUint::one();
    loop {
        if ref_bernoulli(&(g / k.clone()), u) {
            k += 1u32;
        } else {
            return k.is_odd();
        }
    }
}

fn ref_bernoulli_exp(g: &Q, u: &mut dyn Uni) -> bool {
    let fl = g.floor().to_integer();
    let mut i = BigUint::one();
    while i <= fl {
        if !ref_bernoulli_exp1(&Q::one(), u) {
            return false;
        }
        i += 1u32;
    }
    ref_bernoulli_exp1(&(g - g.floor()), u)
}

fn ref_geometric_exp(g: &Q, u: &mut dyn Uni) -> BigUint {
    if g.is_zero() {
        return BigUint::zero();
    }
    let (s, t) = (g.numer().clone(), g.denom().clone());
    let mut uu = u.draw(&BigUint::zero(), &t);
    while !ref_bernoulli_exp1(&Ratio::new(uu.clone(), t.clone()), u) {
        uu = u.draw(&BigUint::zero(), &t);
    }
    let mut v = BigUint::zero();
    while ref_bernoulli_exp1(&Q::one(), u) {
        v += 1u32;
    }
    (uu + &t * v) / s
}

fn ref_laplace(scale: &Q, u: &mut dyn Uni) -> BigInt {
    if scale.numer().is_zero() {
        return BigInt::zero();
    }
    loop {
        let negative = ref_bernoulli(&q(1, 2), u);
        let y = BigInt::from(ref_geometric_exp(&scale.recip(), u));
        if negative && y.is_zero() {
            continue;
        }
        return if negative { -y } else { y };
    }
}

fn ref_gaussian(sigma: &Q, u: &mut dyn Uni) -> BigInt {
    if sigma.is_zero() {
        return BigInt::zero();
    }
    let t = sigma.floor() + BigUint::one();
    loop {
        let y = ref_laplace(&t, u);
        let ya: Q = Ratio::from(y.magnitude().clone());
        // (|y| - sigma^2/t)^2 / (2 sigma^2)
        let c = sigma.pow(2) / t.clone();
        let diff = if ya < c { c - ya } else { ya - c };
        let prob = diff.pow(2) / (sigma.pow(2) * BigUint::from(2u32));
        if ref_bernoulli_exp(&prob, u) {
            return y;
        }
    }
}

struct TapeUni {
    tape: Vec<u16>,
    pos: usize,
    filler: u64,
    ranges: Vec<(BigUint, BigUint)>,
    draws: Vec<BigUint>,
    limit: usize,
}

#[derive(Debug)]
struct TooLong;

impl TapeUni {
    fn next_index(&mut self) -> u16 {
        let x = if self.pos < self.tape.len() { self.tape[self.pos] } else { u16::from_le_bytes(expand_arr::<2>(self.filler, self.pos as u64)) };
        self.pos += 1;
        x
    }
    fn pick(&mut self, low: &BigUint, high: &BigUint) -> BigUint {
        if self.pos >= self.limit {
            std::panic::panic_any(TooLong);
        }
        let x = self.next_index();
        let range = high - low;
        let v = low + ((BigUint::from(x) * &range) >> 16usize);
        self.ranges.push((low.clone(), high.clone()));
        self.draws.push(v.clone());
        v
    }
}

impl Uni for TapeUni {
    fn draw(&mut self, low: &BigUint, high: &BigUint) -> BigUint {
        self.pick(low, high)
    }
}

fn transcription(dist: Dist, n: u64, d: u64, tape: &[u16], filler: u64, obs: &mut Obs) {
    let param = q(n as u128, d as u128);
    let mk = || TapeUni { tape: tape.to_vec(), pos: 0, filler, ranges: vec![], draws: vec![], limit: 20_000 };
    // reference
    let mut r = mk();
    let want = guard_any(|| match dist {
        Dist::Laplace => ref_laplace(&param, &mut r),
        Dist::Gaussian => ref_gaussian(&param, &mut r),
    });
    let want = match want {
        Ok(w) => w,
        Err(_) => {
            obs.label("tape-too-long(inconclusive)");
            return;
        }
    };
    // real sampler with the uniform layer served from the same tape
    let shared = Rc::new(RefCell::new(mk()));
    let sh = shared.clone();
    let mut norng = NoRng::default();
    let got = guard_any(|| {
        hk::with_interceptor(
            move |layer| match layer {
                Layer::Uniform { low, high } => Some(Answer::Big(sh.borrow_mut().pick(low, high))),
                _ => None,
            },
            || match dist {
                Dist::Laplace => hk::discrete_laplace(&param, &mut norng),
                Dist::Gaussian => hk::discrete_gaussian(&param, &mut norng),
            },
        )
    });
    let got = match got {
        Ok(g) => g,
        Err(e) => {
            if e.downcast_ref::<TooLong>().is_some() {
                obs.fail("sampler-does-not-terminate-on-tape", format!("{dist:?}({n}/{d}) asks for more than 20000 uniform draws on a tape on which Algorithms 1-3 terminate after {}", r.draws.len()));
            } else {
                let msg = e.downcast_ref::<String>().cloned().or_else(|| e.downcast_ref::<&str>().map(|s| s.to_string())).unwrap_or_default();
                obs.fail("sampler-panic", format!("{dist:?}({n}/{d}) panicked: {msg}"));
            }
            return;
        }
    };
    if norng.reads > 0 {
        obs.fail("random-source-read-directly", format!("{dist:?}({n}/{d}) read the random source {} times outside the uniform-draw layer", norng.reads));
        return;
    }
    let real = shared.borrow();
    if real.ranges != r.ranges {
        let i = real.ranges.iter().zip(&r.ranges).position(|(a, b)| a != b).unwrap_or(real.ranges.len().min(r.ranges.len()));
        obs.fail("uniform-request-sequence", format!("{dist:?}({n}/{d}): uniform draw {i} is requested over {:?} by the sampler but over {:?} by Algorithms 1-3 of CKS20 (draws so far {:?})", real.ranges.get(i), r.ranges.get(i), &r.draws[..i.min(r.draws.len())]));
        return;
    }
    if got != want {
        obs.fail("transcription-output", format!("{dist:?}({n}/{d}) on draws {:?} returns {got}, Algorithms 1-3 of CKS20 return {want}", r.draws));
        return;
    }
    // non-trivial: at least one rejection in a loop (more draws than the shortest possible path)
    let min_draws = match dist {
        Dist::Laplace => 4,
        Dist::Gaussian => 5,
    };
    if r.draws.len() > min_draws + 2 {
        obs.nt();
        obs.label("path-with-rejections");
    }
    if d > 1 {
        obs.label("non-integer-parameter");
    }
    obs.label(format!("transcription:{dist:?}"));
}

// ------------------------------------------------------------------------------------------------
// Layer 2

fn layer_bernoulli(n: u64, d: u64, obs: &mut Obs) -> u64 {
    let g = q(n as u128, d as u128);
    let (gn, gd) = (g.numer().to_u64().unwrap(), g.denom().to_u64().unwrap());
    let draws: Vec<u64> = if gd <= 4096 { (1..=gd).collect() } else { vec![1, gn.saturating_sub(1).max(1), gn.max(1), (gn + 1).min(gd), gd, gd / 2] };
    let mut trues = 0u64;
    for s in &draws {
        let s = *s;
        let req: Rc<RefCell<Vec<(BigUint, BigUint)>>> = Rc::new(RefCell::new(vec![]));
        let rq = req.clone();
        let mut norng = NoRng::default();
        let r = guard(|| {
            hk::with_interceptor(
                move |layer| match layer {
                    Layer::Uniform { low, high } => {
                        rq.borrow_mut().push((low.clone(), high.clone()));
                        Some(Answer::Big(BigUint::from(s)))
                    }
                    _ => None,
                },
                || hk::bernoulli(&g, &mut norng),
            )
        });
        let r = match r {
            Ok(r) => r,
            Err(p) => {
                obs.fail(format!("bernoulli-{}", panic_sig(&p)), format!("Bernoulli({n}/{d}) panicked: {p}"));
                return 0;
            }
        };
        let req = req.borrow();
        if req.len() != 1 || req[0] != (BigUint::one(), BigUint::from(gd + 1)) || norng.reads > 0 {
            obs.fail("bernoulli-draw-range", format!("Bernoulli({gn}/{gd}) made uniform requests {:?} (and {} direct reads); one draw over [1, {gd}] is specified", *req, norng.reads));
            return 0;
        }
        if r != (s <= gn) {
            obs.fail("bernoulli-threshold", format!("Bernoulli({gn}/{gd}) with the uniform draw s = {s} returns {r}; the specification returns s ≤ {gn}"));
            return 0;
        }
        if r {
            trues += 1;
        }
    }
    if gd <= 4096 && trues != gn {
        obs.fail("bernoulli-mass", format!("Bernoulli({gn}/{gd}): {trues} of the {gd} equally likely draws give true, expected {gn}"));
    }
    if gd > 4096 {
        obs.label("bernoulli:large-denominator-lattice");
    }
    draws.len() as u64
}

fn layer_bernexp1(n: u64, d: u64, depth: usize, obs: &mut Obs) -> u64 {
    let g = q(n as u128, d as u128);
    let mut evals = 0;
    let mut mass_true = Q::zero();
    // path k: true × (k-1), then false
    for k in 1..=depth {
        let args: Rc<RefCell<Vec<Q>>> = Rc::new(RefCell::new(vec![]));
        let a2 = args.clone();
        let mut norng = NoRng::default();
        let r = guard(|| {
            hk::with_interceptor(
                move |layer| match layer {
                    Layer::Bernoulli(x) => {
                        let mut v = a2.borrow_mut();
                        v.push(x.clone());
                        Some(Answer::Bool(v.len() < k))
                    }
                    _ => None,
                },
                || hk::bernoulli_exp1(&g, &mut norng),
            )
        });
        evals += 1;
        let r = match r {
            Ok(r) => r,
            Err(p) => {
                obs.fail(format!("bernoulli-exp1-{}", panic_sig(&p)), format!("Bernoulli(exp(-{n}/{d})) panicked: {p}"));
                return evals;
            }
        };
        let args = args.borrow();
        let want_args: Vec<Q> = (1..=k).map(|j| &g / BigUint::from(j)).collect();
        if *args != want_args {
            obs.fail("bernoulli-exp1-arguments", format!("Bernoulli(exp(-{n}/{d})), path of {} successes: Bernoulli draws were made with parameters {:?}; Algorithm 1 uses γ/1, γ/2, … = {:?}", k - 1, *args, want_args));
            return evals;
        }
        if r != (k % 2 == 1) {
            obs.fail("bernoulli-exp1-parity", format!("Bernoulli(exp(-{n}/{d})): first failure at K = {k} returns {r}; Algorithm 1 returns (K odd)"));
            return evals;
        }
        // weight of the path from the arguments the code actually used
        let mut w = Q::one();
        for a in &args[..k - 1] {
            w *= a;
        }
        w *= Q::one() - &args[k - 1];
        if r {
            mass_true += w;
        }
    }
    // exact identity: Σ_{odd k ≤ K} weight = Σ_{j ≤ K'} (−γ)^j / j!  (K' = K rounded down to odd)
    let kk = if depth % 2 == 1 { depth } else { depth - 1 };
    let mut taylor_pos = Q::zero();
    let mut taylor_neg = Q::zero();
    let mut term = Q::one();
    for j in 0..=kk {
        if j > 0 {
            term = term * &g / BigUint::from(j);
        }
        if j % 2 == 0 {
            taylor_pos += &term;
        } else {
            taylor_neg += &term;
        }
    }
    if mass_true.clone() + taylor_neg != taylor_pos {
        obs.fail("bernoulli-exp1-law", format!("Bernoulli(exp(-{n}/{d})): the path weights returning true up to depth {kk} sum to {mass_true}, not to the Taylor partial sum of exp(-γ)"));
    }
    evals
}

fn layer_bernexp(n: u64, d: u64, fail_at: u8, obs: &mut Obs) -> u64 {
    let g = q(n as u128, d as u128);
    let fl = g.floor().to_integer().to_u64().unwrap_or(u64::MAX);
    if fl > 200 {
        return 0;
    }
    let frac = &g - g.floor();
    // the factor that fails (0 = none fails)
    let fail = if fail_at as u64 > fl + 1 { 0 } else { fail_at as u64 };
    let args: Rc<RefCell<Vec<Q>>> = Rc::new(RefCell::new(vec![]));
    let a2 = args.clone();
    let mut norng = NoRng::default();
    let r = guard(|| {
        hk::with_interceptor(
            move |layer| match layer {
                Layer::BernoulliExp1(x) => {
                    let mut v = a2.borrow_mut();
                    v.push(x.clone());
                    Some(Answer::Bool(v.len() as u64 != fail))
                }
                _ => None,
            },
            || hk::bernoulli_exp(&g, &mut norng),
        )
    });
    let r = match r {
        Ok(r) => r,
        Err(p) => {
            obs.fail(format!("bernoulli-exp-{}", panic_sig(&p)), format!("Bernoulli(exp(-{n}/{d})) panicked: {p}"));
            return 1;
        }
    };
    let args = args.borrow();
    let mut want: Vec<Q> = vec![];
    for i in 1..=fl {
        want.push(Q::one());
        if i == fail {
            break;
        }
    }
    if fail == 0 || fail == fl + 1 {
        want.push(frac);
    }
    if *args != want {
        obs.fail("bernoulli-exp-factors", format!("Bernoulli(exp(-{n}/{d})) with factor {fail} failing: factors evaluated {:?}; Algorithm 1 evaluates ⌊γ⌋ = {fl} factors exp(-1) then exp(-(γ − ⌊γ⌋)), stopping at the first failure: {:?}", *args, want));
        return 1;
    }
    if r != (fail == 0) {
        obs.fail("bernoulli-exp-result", format!("Bernoulli(exp(-{n}/{d})) with factor {fail} failing returns {r}"));
    }
    if fl >= 1 {
        obs.label("bernoulli-exp:gamma>1");
    }
    1
}

fn layer_geometric(s: u64, t: u64, rejected: &[u16], u: u16, v: u8, obs: &mut Obs) -> u64 {
    let g = q(s as u128, t as u128);
    if g.is_zero() {
        let mut norng = NoRng::default();
        let r = hk::with_interceptor(|_| None, || hk::geometric_exp(&g, &mut norng));
        if !r.is_zero() || norng.reads > 0 {
            obs.fail("geometric-zero", "Geometric with γ = 0 does not return 0 without randomness");
        }
        return 1;
    }
    let (gs, gt) = (g.numer().clone(), g.denom().clone());
    let tt = gt.to_u64().unwrap();
    let us: Vec<u64> = rejected.iter().map(|x| idx16(*x, tt as usize) as u64).chain(std::iter::once(idx16(u, tt as usize) as u64)).collect();
    #[derive(Default)]
    struct St {
        uniform: Vec<(BigUint, BigUint)>,
        exp1: Vec<Q>,
        ui: usize,
        phase2: u64,
    }
    let st = Rc::new(RefCell::new(St::default()));
    let s2 = st.clone();
    let us2 = us.clone();
    let vv = v as u64;
    let mut norng = NoRng::default();
    let r = guard(|| {
        hk::with_interceptor(
            move |layer| {
                let mut st = s2.borrow_mut();
                match layer {
                    Layer::Uniform { low, high } => {
                        st.uniform.push((low.clone(), high.clone()));
                        let x = us2[st.ui.min(us2.len() - 1)];
                        st.ui += 1;
                        Some(Answer::Big(BigUint::from(x)))
                    }
                    Layer::BernoulliExp1(x) => {
                        st.exp1.push(x.clone());
                        if st.ui < us2.len() {
                            // still proposing u: reject all but the last
                            Some(Answer::Bool(false))
                        } else if st.exp1.len() == us2.len() {
                            Some(Answer::Bool(true)) // accept the last u
                        } else {
                            st.phase2 += 1;
                            Some(Answer::Bool(st.phase2 <= vv))
                        }
                    }
                    _ => None,
                }
            },
            || hk::geometric_exp(&g, &mut norng),
        )
    });
    let r = match r {
        Ok(r) => r,
        Err(p) => {
            obs.fail(format!("geometric-{}", panic_sig(&p)), format!("Geometric({s}/{t}) panicked: {p}"));
            return 1;
        }
    };
    let st = st.borrow();
    let uacc = *us.last().unwrap();
    let want = (BigUint::from(uacc) + &gt * BigUint::from(vv)) / &gs;
    // requests: every uniform over [0, t); acceptance tests with u/t; then v+1 tests with 1
    let want_uniform: Vec<(BigUint, BigUint)> = us.iter().map(|_| (BigUint::zero(), gt.clone())).collect();
    let mut want_exp1: Vec<Q> = us.iter().map(|x| Ratio::new(BigUint::from(*x), gt.clone())).collect();
    for _ in 0..=vv {
        want_exp1.push(Q::one());
    }
    if st.uniform != want_uniform || st.exp1 != want_exp1 || norng.reads > 0 {
        obs.fail("geometric-structure", format!("Geometric({gs}/{gt}): uniform requests {:?}, Bernoulli-exp parameters {:?}; Algorithm 2 draws U over [0, t) until Bernoulli(exp(-U/t)) succeeds and then counts Bernoulli(exp(-1)) successes: {:?} / {:?}", st.uniform, st.exp1, want_uniform, want_exp1));
        return 1;
    }
    if r != want {
        obs.fail("geometric-output", format!("Geometric({gs}/{gt}) with U = {uacc}, V = {vv} returns {r}; Algorithm 2 returns ⌊(U + t·V)/s⌋ = {want}"));
    }
    if !rejected.is_empty() {
        obs.label("geometric:u-rejected");
        obs.nt();
    }
    1
}

fn layer_laplace(s: u64, t: u64, tries: &[(bool, u16)], obs: &mut Obs) -> u64 {
    let scale = q(s as u128, t as u128);
    if scale.is_zero() {
        return 0;
    }
    // the last try must terminate: make it (false, anything) or (true, non-zero)
    let mut tries: Vec<(bool, u64)> = tries.iter().map(|(n, y)| (*n, (*y % 7) as u64)).collect();
    if tries.is_empty() {
        tries.push((false, 0));
    }
    let stop = tries.iter().position(|(n, y)| !(*n && *y == 0)).unwrap_or(tries.len());
    if stop == tries.len() {
        tries.push((true, 3));
    }
    let tries: Vec<(bool, u64)> = tries[..=stop].to_vec();
    #[derive(Default)]
    struct St {
        bern: Vec<Q>,
        geo: Vec<Q>,
    }
    let st = Rc::new(RefCell::new(St::default()));
    let s2 = st.clone();
    let tr = tries.clone();
    let mut norng = NoRng::default();
    let r = guard(|| {
        hk::with_interceptor(
            move |layer| {
                let mut st = s2.borrow_mut();
                match layer {
                    Layer::Bernoulli(x) => {
                        st.bern.push(x.clone());
                        Some(Answer::Bool(tr[(st.bern.len() - 1).min(tr.len() - 1)].0))
                    }
                    Layer::GeometricExp(x) => {
                        st.geo.push(x.clone());
                        Some(Answer::Big(BigUint::from(tr[(st.geo.len() - 1).min(tr.len() - 1)].1)))
                    }
                    _ => None,
                }
            },
            || hk::discrete_laplace(&scale, &mut norng),
        )
    });
    let r = match r {
        Ok(r) => r,
        Err(p) => {
            obs.fail(format!("laplace-{}", panic_sig(&p)), format!("Laplace({s}/{t}) panicked: {p}"));
            return 1;
        }
    };
    let st = st.borrow();
    let (neg, y) = *tries.last().unwrap();
    let want = if neg { -BigInt::from(y) } else { BigInt::from(y) };
    let want_bern: Vec<Q> = tries.iter().map(|_| q(1, 2)).collect();
    let want_geo: Vec<Q> = tries.iter().map(|_| scale.recip()).collect();
    if st.bern != want_bern || st.geo != want_geo || norng.reads > 0 {
        obs.fail("laplace-structure", format!("Laplace({s}/{t}): sign draws with parameters {:?}, geometric draws with parameters {:?}; Algorithm 2 draws a fair sign and Geometric(1 − exp(−1/scale)) per attempt, retrying only on −0", st.bern, st.geo));
        return 1;
    }
    if r != want {
        obs.fail("laplace-output", format!("Laplace({s}/{t}) with attempts {tries:?} returns {r}, expected {want}"));
    }
    if tries.len() > 1 {
        obs.label("laplace:negative-zero-retried");
        obs.nt();
    }
    1
}

fn layer_gaussian(n: u64, d: u64, proposals: &[i32], obs: &mut Obs) -> u64 {
    let sigma = q(n as u128, d as u128);
    if sigma.is_zero() || proposals.is_empty() {
        return 0;
    }
    let props: Vec<i64> = proposals.iter().map(|p| (*p % 60) as i64).collect();
    #[derive(Default)]
    struct St {
        lap: Vec<Q>,
        acc: Vec<Q>,
    }
    let st = Rc::new(RefCell::new(St::default()));
    let s2 = st.clone();
    let pr = props.clone();
    let mut norng = NoRng::default();
    let r = guard(|| {
        hk::with_interceptor(
            move |layer| {
                let mut st = s2.borrow_mut();
                match layer {
                    Layer::Laplace(x) => {
                        st.lap.push(x.clone());
                        Some(Answer::Int(BigInt::from(pr[(st.lap.len() - 1).min(pr.len() - 1)])))
                    }
                    Layer::BernoulliExp(x) => {
                        st.acc.push(x.clone());
                        // accept only the last proposal
                        Some(Answer::Bool(st.acc.len() >= pr.len()))
                    }
                    _ => None,
                }
            },
            || hk::discrete_gaussian(&sigma, &mut norng),
        )
    });
    let r = match r {
        Ok(r) => r,
        Err(p) => {
            obs.fail(format!("gaussian-{}", panic_sig(&p)), format!("Gaussian({n}/{d}) panicked: {p}"));
            return 1;
        }
    };
    let st = st.borrow();
    let t = sigma.floor() + BigUint::one();
    if st.lap.len() != props.len() || st.lap.iter().any(|x| *x != t) || norng.reads > 0 {
        obs.fail("gaussian-proposal-scale", format!("Gaussian({n}/{d}): Laplace proposals drawn with scales {:?}; Algorithm 3 uses t = ⌊σ⌋ + 1 = {t} for every proposal", st.lap));
        return 1;
    }
    // the rational identity |y|/t + arg = y²/(2σ²) + σ²/(2t²) turns Laplace(t) proposals into the
    // discrete Gaussian
    let s2q = sigma.pow(2);
    for (i, y) in props.iter().enumerate() {
        let ya: Q = Ratio::from(BigUint::from(y.unsigned_abs()));
        let lhs = &ya / &t + &st.acc[i];
        let rhs = ya.pow(2) / (&s2q * BigUint::from(2u32)) + &s2q / (t.pow(2) * BigUint::from(2u32));
        if lhs != rhs {
            obs.fail("gaussian-acceptance-argument", format!("Gaussian({n}/{d}), proposal y = {y}: acceptance parameter {} does not satisfy |y|/t + γ = y²/(2σ²) + σ²/(2t²)", st.acc[i]));
            return 1;
        }
    }
    if r != BigInt::from(*props.last().unwrap()) {
        obs.fail("gaussian-output", format!("Gaussian({n}/{d}) returns {r}, the accepted proposal is {}", props.last().unwrap()));
    }
    if props.len() > 1 {
        obs.label("gaussian:proposal-rejected");
        obs.nt();
    }
    1
}

// ------------------------------------------------------------------------------------------------
// Layer 3: the whole path tree with exact weights, against the closed-form law

#[derive(Debug)]
struct NeedMore(Layer);

/// Lower and upper rational bounds of exp(-x) for rational x ≥ 0 (alternating Taylor series with
/// argument reduction by squaring is unnecessary for the small x used here).
fn exp_neg_bounds(x: &Q) -> (Q, Q) {
    // signed rationals: early partial sums can be negative
    type S = Ratio<BigInt>;
    let xs: S = Ratio::new(BigInt::from(x.numer().clone()), BigInt::from(x.denom().clone()));
    let mut sum = S::zero();
    let mut term = S::one();
    let mut j = 0u32;
    let mut lo = S::zero();
    let mut hi = S::one();
    let tiny: S = Ratio::new(BigInt::one(), BigInt::one() << 100usize);
    loop {
        if j > 0 {
            term = term * &xs / BigInt::from(j);
        }
        // from here on the terms decrease, so the partial sums alternate around the limit
        let decreasing = S::from(BigInt::from(j + 1)) > xs;
        if j % 2 == 0 {
            sum += &term;
            if decreasing && sum < hi {
                hi = sum.clone();
            }
        } else {
            sum -= &term;
            if decreasing && sum > lo {
                lo = sum.clone();
            }
        }
        if decreasing && term < tiny && j % 2 == 1 {
            break;
        }
        j += 1;
        if j > 600 {
            break;
        }
    }
    let to_q = |s: S| -> Q {
        if s.is_negative() {
            Q::zero()
        } else {
            Ratio::new(s.numer().to_biguint().unwrap(), s.denom().to_biguint().unwrap())
        }
    };
    (to_q(lo), to_q(hi))
}

/// Result of exploring the path tree of a computation whose only randomness are (intercepted)
/// Bernoulli(γ) and uniform draws: exact rational mass per leaf label, plus the pruned residual.
struct Explored {
    mass: std::collections::BTreeMap<String, Q>,
    residual: Q,
    leaves: u64,
    runs: u64,
    inconclusive: Option<&'static str>,
}

#[derive(Debug)]
struct LeafNow(String);

/// `run(answer)` executes the computation once; `answer` serves each Bernoulli / Uniform request
/// (it panics with NeedMore when the prescribed prefix is exhausted) and may panic with LeafNow to
/// cut the computation at a point of interest.
fn explore(threshold: &Q, max_runs: u64, run: &dyn Fn(&mut dyn FnMut(&Layer) -> Option<Answer>) -> String) -> Explored {
    let mut stack: Vec<(Vec<Answer>, Q)> = vec![(vec![], Q::one())];
    let mut ex = Explored { mass: Default::default(), residual: Q::zero(), leaves: 0, runs: 0, inconclusive: None };
    while let Some((prefix, w)) = stack.pop() {
        ex.runs += 1;
        if ex.runs > max_runs {
            ex.inconclusive = Some("tree-budget-exhausted(inconclusive)");
            return ex;
        }
        let mut i = 0usize;
        let mut answer = |layer: &Layer| -> Option<Answer> {
            match layer {
                Layer::Uniform { .. } | Layer::Bernoulli(_) => {
                    if i < prefix.len() {
                        let a = prefix[i].clone();
                        i += 1;
                        Some(a)
                    } else {
                        std::panic::panic_any(NeedMore(layer.clone()))
                    }
                }
                _ => None,
            }
        };
        let res = guard_any(|| run(&mut answer));
        match res {
            Ok(label) => {
                ex.leaves += 1;
                *ex.mass.entry(label).or_insert_with(Q::zero) += w;
            }
            Err(e) => {
                if let Some(l) = e.downcast_ref::<LeafNow>() {
                    ex.leaves += 1;
                    *ex.mass.entry(l.0.clone()).or_insert_with(Q::zero) += w;
                    continue;
                }
                match e.downcast::<NeedMore>() {
                    Ok(nm) => {
                        let children: Vec<(Answer, Q)> = match &nm.0 {
                            Layer::Bernoulli(g) => {
                                let mut v = vec![];
                                if !g.is_zero() {
                                    v.push((Answer::Bool(true), g.clone()));
                                }
                                if *g != Q::one() {
                                    v.push((Answer::Bool(false), Q::one() - g));
                                }
                                v
                            }
                            Layer::Uniform { low, high } => {
                                let range = (high - low).to_u64().unwrap_or(u64::MAX);
                                if range > 64 {
                                    ex.inconclusive = Some("tree-uniform-range-too-wide(inconclusive)");
                                    return ex;
                                }
                                (0..range).map(|k| (Answer::Big(low + BigUint::from(k)), Ratio::new(BigUint::one(), BigUint::from(range)))).collect()
                            }
                            _ => vec![],
                        };
                        for (a, p) in children {
                            let cw = &w * &p;
                            if cw < *threshold {
                                ex.residual += cw;
                            } else {
                                let mut np = prefix.clone();
                                np.push(a);
                                stack.push((np, cw));
                            }
                        }
                    }
                    Err(_) => {
                        ex.inconclusive = Some("tree-sampler-panic");
                        return ex;
                    }
                }
            }
        }
    }
    ex
}

/// Runs `f` with an interceptor built from a non-'static closure (the hook wants 'static).
fn with_dyn_interceptor<T>(answer: &mut dyn FnMut(&Layer) -> Option<Answer>, f: impl FnOnce() -> T) -> T {
    // SAFETY: the interceptor is removed (by with_interceptor's guard) before this function
    // returns or unwinds, so the extended borrow never outlives `answer`.
    let ptr: *mut (dyn FnMut(&Layer) -> Option<Answer> + '_) = answer;
    let ptr: *mut (dyn FnMut(&Layer) -> Option<Answer> + 'static) = unsafe { std::mem::transmute(ptr) };
    hk::with_interceptor(move |l| unsafe { (*ptr)(l) }, f)
}

#[derive(Clone, Debug, Serialize, Deserialize, PartialEq, Eq)]
pub enum TreeKind {
    /// discrete Laplace end to end
    Laplace,
    /// Bernoulli(exp(-γ)) incl. γ > 1
    BernoulliExp,
    /// discrete Gaussian: probability of accepting the proposal y (first iteration of the loop)
    GaussianAccept { y: i32 },
}

fn tree(kind: &TreeKind, n: u64, d: u64, log2_residual: u8, obs: &mut Obs) -> u64 {
    let param = q(n as u128, d as u128);
    let threshold = q(1, 1u128 << log2_residual.min(60));
    let ex = match kind {
        TreeKind::Laplace => explore(&threshold, 4_000_000, &|ans| {
            let mut norng = NoRng::default();
            with_dyn_interceptor(ans, || hk::discrete_laplace(&param, &mut norng)).to_string()
        }),
        TreeKind::BernoulliExp => explore(&threshold, 4_000_000, &|ans| {
            let mut norng = NoRng::default();
            with_dyn_interceptor(ans, || hk::bernoulli_exp(&param, &mut norng)).to_string()
        }),
        TreeKind::GaussianAccept { y } => {
            let y = *y;
            explore(&threshold, 4_000_000, &|ans| {
                let mut norng = NoRng::default();
                let mut proposals = 0;
                let mut wrapped = |l: &Layer| -> Option<Answer> {
                    match l {
                        Layer::Laplace(_) => {
                            proposals += 1;
                            if proposals > 1 {
                                std::panic::panic_any(LeafNow("rejected".into()))
                            }
                            Some(Answer::Int(BigInt::from(y)))
                        }
                        other => ans(other),
                    }
                };
                with_dyn_interceptor(&mut wrapped, || hk::discrete_gaussian(&param, &mut norng)).to_string()
            })
        }
    };
    if let Some(why) = ex.inconclusive {
        if why == "tree-sampler-panic" {
            obs.fail("tree-sampler-panic", format!("{kind:?}({n}/{d}) panicked while its path tree was explored"));
        } else {
            obs.label(why);
        }
        return ex.runs;
    }
    let total: Q = ex.mass.values().fold(Q::zero(), |a, b| a + b) + &ex.residual;
    if total != Q::one() {
        obs.fail("tree-mass", format!("{kind:?}({n}/{d}): explored mass + residual = {total}, not 1"));
        return ex.runs;
    }
    let show = |x: &Q| x.to_f64().unwrap_or(0.0);
    let check = |label: &str, lo: Q, hi: Q, obs: &mut Obs| -> bool {
        let m = ex.mass.get(label).cloned().unwrap_or_else(Q::zero);
        let upper = &m + &ex.residual;
        if hi < m || lo > upper {
            obs.fail("law-mismatch", format!("{kind:?}({n}/{d}): P[{label}] computed from the sampler's own path tree lies in [{:.12}, {:.12}], the distribution's definition gives [{:.12}, {:.12}]", show(&m), show(&upper), show(&lo), show(&hi)));
            return false;
        }
        true
    };
    let mut values = 0;
    match kind {
        TreeKind::Laplace => {
            // P(y) = (1 − e^{-1/s}) / (1 + e^{-1/s}) · e^{-|y|/s}
            let inv = param.recip();
            let (el, eh) = exp_neg_bounds(&inv);
            let labels: Vec<String> = ex.mass.keys().cloned().chain((-6i64..=6).map(|y| y.to_string())).collect();
            for label in labels {
                let y: i64 = label.parse().unwrap_or(0);
                let (yl, yh) = exp_neg_bounds(&(Q::from(BigUint::from(y.unsigned_abs())) * &inv));
                let lo = (Q::one() - &eh) / (Q::one() + &eh) * yl;
                let hi = (Q::one() - &el) / (Q::one() + &el) * yh;
                if !check(&label, lo, hi, obs) {
                    return ex.runs;
                }
                values += 1;
            }
        }
        TreeKind::BernoulliExp => {
            let (lo, hi) = exp_neg_bounds(&param);
            if !check("true", lo.clone(), hi.clone(), obs) || !check("false", Q::one() - hi, Q::one() - lo, obs) {
                return ex.runs;
            }
            values = 2;
        }
        TreeKind::GaussianAccept { y } => {
            // acceptance probability of the proposal y: exp(−(|y| − σ²/t)² / (2σ²)), t = ⌊σ⌋ + 1
            let t = param.floor() + BigUint::one();
            let c = param.pow(2) / t;
            let ya = Q::from(BigUint::from(y.unsigned_abs()));
            let diff = if ya < c { c - ya } else { ya - c };
            let arg = diff.pow(2) / (param.pow(2) * BigUint::from(2u32));
            let (lo, hi) = exp_neg_bounds(&arg);
            if !check(&y.to_string(), lo.clone(), hi.clone(), obs) || !check("rejected", Q::one() - hi, Q::one() - lo, obs) {
                return ex.runs;
            }
            values = 2;
        }
    }
    obs.label(format!("tree:{}:{n}/{d}:leaves={}:labels={values}:residual=2^{:.1}", match kind { TreeKind::Laplace => "laplace".to_string(), TreeKind::BernoulliExp => "bernoulli-exp".to_string(), TreeKind::GaussianAccept { y } => format!("gaussian-accept({y})") }, ex.leaves, ex.residual.to_f64().unwrap_or(0.0).max(1e-300).log2()));
    obs.nt();
    ex.runs
}

// ------------------------------------------------------------------------------------------------
// Layer 4: uniform big integers through the public Rng interface

fn uniform_small(bound: u32, obs: &mut Obs) -> u64 {
    let b = BigUint::from(bound);
    let bits = b.bits() as u32;
    let mut seen = std::collections::BTreeSet::new();
    let mut n = 0;
    for c in 0..(1u32 << bits) {
        // the candidate is the top `bits` bits of the first 32-bit little-endian word
        let word: u32 = if bits == 0 { 0x1234_5678 } else { (c << (32 - bits)) | (0x00AB_CDEFu32 >> bits.min(24)) & ((1u32 << (32 - bits)) - 1) };
        let accept_word: u32 = 0; // candidate 0 is always below the bound
        let mut tape = word.to_le_bytes().to_vec();
        tape.extend_from_slice(&accept_word.to_le_bytes());
        let mut rng = TapeRng::new(tape, 9);
        let r = match guard(|| hk::uniform(&BigUint::zero(), &b, &mut rng)) {
            Ok(Some(r)) => r,
            Ok(None) => {
                obs.fail("uniform-empty-range", format!("uniform over [0, {bound}) reported an empty range"));
                return n;
            }
            Err(p) => {
                obs.fail(format!("uniform-{}", panic_sig(&p)), format!("uniform over [0, {bound}) panicked: {p}"));
                return n;
            }
        };
        n += 1;
        let cand = if bits == 0 { 0 } else { word >> (32 - bits) };
        if cand < bound {
            if r != BigUint::from(cand) || rng.pos != if bits == 0 { 0 } else { 4 } {
                obs.fail("uniform-candidate-map", format!("uniform over [0, {bound}): first word {word:#010x} (candidate {cand}) gives {r} after consuming {} bytes", rng.pos));
                return n;
            }
            seen.insert(cand);
        } else if !r.is_zero() || rng.pos != 8 {
            obs.fail("uniform-rejection", format!("uniform over [0, {bound}): candidate {cand} ≥ bound must be rejected and a fresh word drawn; got {r} after {} bytes", rng.pos));
            return n;
        }
    }
    if seen.len() as u32 != bound {
        obs.fail("uniform-not-bijective", format!("uniform over [0, {bound}): the accepted candidates cover {} values", seen.len()));
    }
    n
}

fn uniform_large(bits: u16, seed: u64, rejections: u8, obs: &mut Obs) -> u64 {
    // bound with exactly `bits` bits
    let bits = bits.max(2) as u64;
    let mut bound = BigUint::from_bytes_le(&expand(seed, 1, (bits as usize).div_ceil(8) + 1)) % (BigUint::one() << (bits - 1));
    bound |= BigUint::one() << (bits - 1);
    let words = (bits as usize).div_ceil(32);
    let rem = bits % 32;
    let make_words = |v: &BigUint| -> Vec<u8> {
        // inverse of the documented construction: little-endian 32-bit words, top word shifted left
        let mut digits = v.to_u32_digits();
        digits.resize(words, 0);
        if rem > 0 {
            let low_noise = 0x5A5A_5A5Au32 & ((1u32 << (32 - rem)) - 1);
            digits[words - 1] = (digits[words - 1] << (32 - rem)) | low_noise;
        }
        digits.iter().flat_map(|d| d.to_le_bytes()).collect()
    };
    let mut tape = vec![];
    // `rejections` candidates ≥ bound, then one below
    let span = (BigUint::one() << bits) - &bound;
    for i in 0..rejections as u64 {
        let c = &bound + (BigUint::from_bytes_le(&expand(seed, 10 + i, 40)) % &span);
        tape.extend(make_words(&c));
    }
    let good = BigUint::from_bytes_le(&expand(seed, 99, 48)) % &bound;
    tape.extend(make_words(&good));
    let low = BigUint::from(seed % 1000);
    let mut rng = TapeRng::new(tape.clone(), 3);
    let r = match guard(|| hk::uniform(&low, &(&low + &bound), &mut rng)) {
        Ok(Some(r)) => r,
        Ok(None) => {
            obs.fail("uniform-empty-range", "uniform reported an empty range for a non-empty one");
            return 1;
        }
        Err(p) => {
            obs.fail(format!("uniform-{}", panic_sig(&p)), format!("uniform with a {bits}-bit bound panicked: {p}"));
            return 1;
        }
    };
    if r != &low + &good || rng.pos != tape.len() {
        obs.fail("uniform-large-word-model", format!("uniform over [{low}, {low} + {bound}) with {rejections} rejected candidates: got {r} after {} bytes; the documented construction (little-endian 32-bit words, top word shifted right by {}, reject ≥ bound) gives {} after {} bytes", rng.pos, if rem > 0 { 32 - rem } else { 0 }, &low + &good, tape.len()));
    }
    if rejections > 0 {
        obs.label("uniform-large:rejection");
        obs.nt();
    }
    1
}

// ------------------------------------------------------------------------------------------------
// Layer 5: noise application

#[allow(clippy::too_many_arguments)]
fn noise_case(typ: u8, f128: bool, max: u64, len: u8, eps_n: u64, eps_d: u64, share_seed: u64, noises: &[i64], huge: bool, max_shape: u8, count_sel: u8, obs: &mut Obs) {
    let len = (len as usize % 6) + 1;
    let max = max.max(1);
    let count = [1usize, 0, 2, 1000, usize::MAX][count_sel as usize % 5];
    if count != 1 {
        obs.label(format!("noise:count={count}"));
    }
    // the bound actually used (wide shapes only for L1BoundSum, whose constructor admits 0 < max < p)
    let max_wide: u128 = if typ % 3 == 2 {
        let (w, pm1) = if f128 { (128u32, P128 - 1) } else { (64u32, P64 as u128 - 1) };
        let half = 1u128 << (w - 1);
        let r = (max % 1000) as u128;
        match max_shape % 5 {
            0 => max as u128,
            1 => pm1 - r,
            2 => half + r,
            3 => half - 1 - r,
            _ => half,
        }
    } else {
        max as u128
    };
    if max_wide > u64::MAX as u128 / 2 {
        obs.label("noise:bound-above-half-width");
        obs.nt();
    }
    let eps = match Rational::from_unsigned(eps_n, eps_d) {
        Ok(e) => e,
        Err(_) => {
            if eps_d != 0 {
                obs.fail("rational-refuses-valid", "Rational::from_unsigned refused a non-zero denominator");
            }
            obs.label("noise:zero-denominator-refused");
            return;
        }
    };
    let budget = match PureDpBudget::new(eps) {
        Ok(b) => b,
        Err(_) => {
            if eps_n != 0 {
                obs.fail("budget-refuses-valid", "PureDpBudget::new refused a non-zero epsilon");
            }
            obs.label("noise:zero-epsilon-refused");
            return;
        }
    };
    if eps_n == 0 {
        obs.fail("budget-accepts-zero-epsilon", "PureDpBudget::new accepted epsilon = 0");
        return;
    }
    let strat = PureDpDiscreteLaplace::from_budget(budget);
    let epsq = q(eps_n as u128, eps_d as u128);
    let bits = 64 - max.leading_zeros() as u64;
    // documented sensitivities
    let (name, sens, out_len): (&str, BigUint, usize) = match typ % 3 {
        0 => ("SumVec", ((BigUint::one() << bits) - 1u32) * BigUint::from(len), len),
        1 => ("Histogram", BigUint::from(2u32), len),
        _ => ("L1BoundSum", BigUint::from(max_wide) * 2u32, len),
    };
    let want_scale: Q = Q::from(sens) / &epsq;
    let noise_vals: Vec<BigInt> = (0..out_len)
        .map(|i| {
            let base = BigInt::from(noises[i % noises.len().max(1)]);
            if huge && i % 2 == 0 {
                // |noise| far above the modulus
                base * (BigInt::one() << 130usize) - BigInt::from(7)
            } else {
                base
            }
        })
        .collect();
    let scales: Rc<RefCell<Vec<Q>>> = Rc::new(RefCell::new(vec![]));
    let s2 = scales.clone();
    let nv = noise_vals.clone();
    macro_rules! run {
        ($F:ty, $vdaf:expr) => {{
            let vdaf = match $vdaf {
                Ok(v) => v,
                Err(e) => {
                    obs.fail("noise-ctor", format!("constructor refused: {e}"));
                    return;
                }
            };
            let p = <$F as FieldBig>::modulus_big();
            let share_vals: Vec<BigUint> = (0..out_len).map(|i| BigUint::from_bytes_le(&expand(share_seed, i as u64, 40)) % &p).collect();
            let mut share = AggregateShare::from(share_vals.iter().map(<$F as FieldBig>::from_big).collect::<Vec<$F>>());
            let r = guard(|| {
                hk::with_interceptor(
                    move |layer| match layer {
                        Layer::Laplace(x) => {
                            let mut s = s2.borrow_mut();
                            s.push(x.clone());
                            Some(Answer::Int(nv[(s.len() - 1).min(nv.len() - 1)].clone()))
                        }
                        _ => None,
                    },
                    || vdaf.add_noise_to_agg_share(&strat, &(), &mut share, count),
                )
            });
            match r {
                Err(pn) => {
                    obs.fail(format!("add-noise-{}", panic_sig(&pn)), format!("{name}: add_noise_to_agg_share panicked: {pn}"));
                    return;
                }
                Ok(Err(e)) => {
                    obs.fail("add-noise-err", format!("{name}: add_noise_to_agg_share failed on well-formed arguments: {e}"));
                    return;
                }
                Ok(Ok(())) => {}
            }
            let sc = scales.borrow();
            if sc.len() != out_len {
                obs.fail("noise-draw-count", format!("{name}: {} noise draws for {out_len} coordinates with measurement count {count} (one independent draw per coordinate is specified)", sc.len()));
                return;
            }
            if sc.iter().any(|x| *x != want_scale) {
                obs.fail("noise-scale", format!("{name} (max {max_wide}, len {len}, ε = {eps_n}/{eps_d}): Laplace scale {} used; the documented sensitivity / ε is {want_scale}", sc[0]));
                return;
            }
            let pi = BigInt::from_biguint(Sign::Plus, p.clone());
            let got: Vec<BigUint> = share.as_ref().iter().map(|x| x.to_big()).collect();
            for i in 0..out_len {
                let want = (BigInt::from_biguint(Sign::Plus, share_vals[i].clone()) + &noise_vals[i]).mod_floor(&pi).to_biguint().unwrap();
                if got[i] != want {
                    obs.fail("noise-projection", format!("{name}: coordinate {i}: share {} + noise {} gives {} in the field, expected {want} (true value plus noise modulo the field size)", share_vals[i], noise_vals[i], got[i]));
                    return;
                }
            }
        }};
    }
    let max128 = max as u128;
    match (typ % 3, f128) {
        (0, true) => run!(Field128, Prio3::new_sum_vec(2, max128, len, 2)),
        (0, false) => run!(Field64, Prio3::<SumVec<Field64, ParallelSum<Field64, Mul>>, XofTurboShake128, 32>::new(2, 1, 0xFFFF0000, match SumVec::new(max, len, 2) { Ok(t) => t, Err(e) => { obs.fail("noise-ctor", format!("{e}")); return; } })),
        (1, true) => run!(Field128, Prio3::new_histogram(2, len, 2)),
        (1, false) => run!(Field64, Prio3::<Histogram<Field64, ParallelSum<Field64, Mul>>, XofTurboShake128, 32>::new(2, 1, 0xFFFF0000, match Histogram::new(len, 2) { Ok(t) => t, Err(e) => { obs.fail("noise-ctor", format!("{e}")); return; } })),
        (_, true) => run!(Field128, Prio3::new_l1_bound_sum(2, max_wide, len, 2)),
        (_, false) => run!(Field64, Prio3::<L1BoundSum<Field64, ParallelSum<Field64, Mul>>, XofTurboShake128, 32>::new(2, 1, 0xFFFF0000, match L1BoundSum::new(max_wide as u64, len, 2) { Ok(t) => t, Err(e) => { obs.fail("noise-ctor", format!("{e}")); return; } })),
    }
    obs.label(format!("noise:{name}:{}", if f128 { "Field128" } else { "Field64" }));
    if noise_vals.iter().any(|x| x.is_negative()) {
        obs.label("noise:negative");
        obs.nt();
    }
    if huge {
        obs.label("noise:|noise|>=p");
        obs.nt();
    }
}

fn param_strategy() -> BoxedStrategy<(u64, u64)> {
    prop_oneof![
        4 => proptest::sample::select(vec![(1u64, 1u64), (1, 2), (2, 3), (5, 1), (17, 3), (3, 2), (2, 1), (1, 3), (7, 2), (10, 1)]),
        2 => (1u64..=40, 1u64..=12),
        1 => proptest::sample::select(vec![(1u64, 1000u64), (1_000_000, 7), (99991, 99989), (4294967311, 4294967291), (1, 1 << 40)]),
    ]
    .boxed()
}

impl Check for C15 {
    type Case = Case;
    const ID: &'static str = "C15";
    fn rule(&self) -> String {
        "five layers, all with hook H3 interceptors or the public Rng interface. (1) generated rational parameters (lattice 1/1, 1/2, 2/3, 5, 17/3, 1/1000, 10^6/7, large coprime pairs) × generated tapes of uniform draws: the real Laplace/Gaussian samplers and a transcription of CKS20 Algorithms 1-3 consume the same tape: identical outputs and identical sequences of requested ranges, and no read of the random source outside uniform draws. (2) per layer, with the layer below intercepted: Bernoulli(n/d) true for exactly n of the d draws (all d ≤ 4096, else {1, n−1, n, n+1, d}); Bernoulli(exp(−γ)) parameters γ/k, parity rule and the exact rational Taylor identity of the path weights; the γ > 1 factorisation with short-circuit; geometric, Laplace (−0 retry) and Gaussian (t = ⌊σ⌋+1 and the rational acceptance identity) structure. (3) path trees enumerated with exact rational weights by replaying the sampler under prescribed Bernoulli/uniform answers, pruned below a weight threshold (the pruned mass is the stated residual): discrete Laplace(1/2,1,3/2,2,5) end to end (coarse: residual about 2^-7..2^-10, enough for law errors of a percent), Bernoulli(exp(−γ)) for ten γ incl. γ > 1 and the Gaussian acceptance probability of every proposal y ∈ [−7,7] for σ ∈ {1/2,1,2,3,5/2} (fine: residual ≤ 2^-20); each mass interval [m, m+residual] must meet the closed-form probability bracketed by rational bounds on exp. (4) uniform big integers on a tape RNG: for every bound ≤ 1024 every candidate value (bijection, acceptance exactly < bound, rejected candidates consume fresh words); large bounds against the little-endian word model. (5) add_noise_to_agg_share for SumVec/Histogram/L1BoundSum over both fields (L1BoundSum bounds also at p−1, around 2^(W−1) of the integer type; measurement counts 0, 1, 2, 1000, usize::MAX) with the Laplace layer intercepted: one draw per coordinate whatever the count, scale = documented sensitivity / ε as exact rationals, share + noise reduced by floor-mod incl. negative noise and |noise| > p; ε = 0 and zero denominators refused. Non-trivial = a path with a rejection, a non-integer parameter, negative or oversized noise; distinct by case hash (enumerated items by construction)".into()
    }
    fn strategy(&self, _tier: Tier) -> BoxedStrategy<Case> {
        let dist = prop_oneof![Just(Dist::Laplace), Just(Dist::Gaussian)];
        prop_oneof![
            6 => (dist, param_strategy(), proptest::collection::vec(any::<u16>(), 0..=60), any::<u64>()).prop_map(|(dist, (n, d), tape, filler)| Case::Transcription { dist, n, d, tape, filler }),
            1 => (1u64..=5000, 1u64..=5000).prop_map(|(a, b)| Case::Bernoulli { n: a.min(b), d: a.max(b) }),
            1 => (any::<u64>(), any::<u64>()).prop_map(|(a, b)| Case::Bernoulli { n: a.min(b), d: a.max(b).max(1) }),
            2 => (0u64..=40, 1u64..=40, 2u8..=14).prop_map(|(a, b, depth)| Case::BernExp1 { n: a.min(b), d: a.max(b).max(1), depth }),
            2 => (param_strategy(), 0u8..=8).prop_map(|((n, d), fail_at)| Case::BernExp { n: n % 4000, d, fail_at }),
            2 => (param_strategy(), proptest::collection::vec(any::<u16>(), 0..=3), any::<u16>(), 0u8..=5).prop_map(|((s, t), rejected, u, v)| Case::Geometric { s, t: t.min(60000), rejected, u, v }),
            2 => (param_strategy(), proptest::collection::vec((any::<bool>(), any::<u16>()), 0..=4)).prop_map(|((s, t), tries)| Case::LaplaceLayer { s, t, tries }),
            2 => (param_strategy(), proptest::collection::vec(any::<i32>(), 1..=4)).prop_map(|((n, d), proposals)| Case::GaussianLayer { n, d, proposals }),
            2 => (2u16..=400, any::<u64>(), 0u8..=3).prop_map(|(bits, seed, rejections)| Case::UniformLarge { bits, seed, rejections }),
            4 => (any::<u8>(), any::<bool>(), prop_oneof![Just(1u64), Just(2), Just(255), Just(256), 1u64..=100000], any::<u8>(), 1u64..=50, 1u64..=50, any::<u64>(), proptest::collection::vec(-1_000_000i64..=1_000_000, 1..=6), any::<bool>(), (prop_oneof![3 => Just(0u8), 2 => 1u8..5], prop_oneof![2 => Just(0u8), 1 => 1u8..5])).prop_map(|(typ, f128, max, len, eps_n, eps_d, share_seed, noises, huge, (max_shape, count_sel))| Case::Noise { typ, f128, max, len, eps_n, eps_d, share_seed, noises, huge, max_shape, count_sel }),
        ]
        .boxed()
    }
    fn num_cases(&self, tier: Tier) -> u64 {
        tier.pick(30_000, 600_000)
    }
    fn enumerate(&self, tier: Tier, shard: usize, nshards: usize, f: &mut dyn FnMut(Case) -> bool) {
        let mut cases = vec![];
        for (n, d) in [(1u64, 2u64), (1, 1), (3, 2), (2, 1), (5, 1)] {
            cases.push(Case::Tree { kind: TreeKind::Laplace, n, d, log2_residual: tier.pick(20u8, 27) });
        }
        for (n, d) in [(0u64, 1u64), (1, 3), (1, 2), (1, 1), (3, 2), (2, 1), (7, 2), (5, 1), (17, 3), (9, 1)] {
            cases.push(Case::Tree { kind: TreeKind::BernoulliExp, n, d, log2_residual: tier.pick(30u8, 44) });
        }
        for (n, d) in [(1u64, 2u64), (1, 1), (2, 1), (3, 1), (5, 2)] {
            for y in -7i32..=7 {
                cases.push(Case::Tree { kind: TreeKind::GaussianAccept { y }, n, d, log2_residual: tier.pick(26u8, 40) });
            }
        }
        for bound in 1..=1024u32 {
            cases.push(Case::UniformSmall { bound });
        }
        // zero epsilon / zero denominator
        cases.push(Case::Noise { typ: 0, f128: true, max: 3, len: 2, eps_n: 0, eps_d: 1, share_seed: 1, noises: vec![1], huge: false, max_shape: 0, count_sel: 0 });
        cases.push(Case::Noise { typ: 1, f128: false, max: 3, len: 2, eps_n: 1, eps_d: 0, share_seed: 1, noises: vec![1], huge: false, max_shape: 0, count_sel: 0 });
        for d in 1..=64u64 {
            for n in 0..=d {
                cases.push(Case::Bernoulli { n, d });
            }
        }
        for (i, c) in cases.into_iter().enumerate() {
            if i % nshards == shard && !f(c) {
                return;
            }
        }
    }
    fn enumerated_space(&self, tier: Tier) -> Option<String> {
        Some(format!("path trees (weight threshold 2^-{}) of Laplace(1/2, 1, 3/2, 2, 5), of Bernoulli(exp(-γ)) for 10 γ and of the Gaussian acceptance step for 5 σ × 15 proposals; uniform draws: every bound 1..=1024 × every candidate value; Bernoulli(n/d) for every 0 ≤ n ≤ d ≤ 64 × every draw", tier.pick(20, 27)))
    }
    fn case_timeout_s(&self, tier: Tier) -> u64 {
        tier.pick(900, 7200)
    }
    fn run(&self, case: &Case) -> Outcome {
        let mut obs = Obs::new();
        let mut evals = 1u64;
        match case {
            Case::Transcription { dist, n, d, tape, filler } => transcription(*dist, *n, (*d).max(1), tape, *filler, &mut obs),
            Case::Bernoulli { n, d } => {
                obs.label("layer:bernoulli");
                obs.nt();
                evals = layer_bernoulli((*n).min(*d), (*d).max(1), &mut obs);
            }
            Case::BernExp1 { n, d, depth } => {
                obs.label("layer:bernoulli-exp1");
                obs.nt();
                evals = layer_bernexp1((*n).min(*d), (*d).max(1), (*depth).max(1) as usize, &mut obs);
            }
            Case::BernExp { n, d, fail_at } => {
                obs.label("layer:bernoulli-exp");
                obs.nt();
                evals = layer_bernexp(*n, (*d).max(1), *fail_at, &mut obs);
            }
            Case::Geometric { s, t, rejected, u, v } => {
                obs.label("layer:geometric");
                evals = layer_geometric(*s, (*t).max(1), rejected, *u, *v, &mut obs);
            }
            Case::LaplaceLayer { s, t, tries } => {
                obs.label("layer:laplace");
                evals = layer_laplace(*s, (*t).max(1), tries, &mut obs);
            }
            Case::GaussianLayer { n, d, proposals } => {
                obs.label("layer:gaussian");
                evals = layer_gaussian(*n, (*d).max(1), proposals, &mut obs);
            }
            Case::Tree { kind, n, d, log2_residual } => {
                obs.label("layer:tree");
                evals = tree(kind, *n, (*d).max(1), *log2_residual, &mut obs);
            }
            Case::UniformSmall { bound } => {
                obs.label("layer:uniform-small");
                obs.nt();
                evals = uniform_small((*bound).max(1), &mut obs);
            }
            Case::UniformLarge { bits, seed, rejections } => {
                obs.label("layer:uniform-large");
                evals = uniform_large(*bits, *seed, *rejections, &mut obs);
            }
            Case::Noise { typ, f128, max, len, eps_n, eps_d, share_seed, noises, huge, max_shape, count_sel } => {
                obs.label("layer:noise");
                noise_case(*typ, *f128, *max, *len, *eps_n, *eps_d, *share_seed, noises, *huge, *max_shape, *count_sel, &mut obs);
            }
        }
        obs.evals = evals.max(1);
        obs.finish()
    }
}
