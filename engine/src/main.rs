//! pv — property verifier for libprio-rs (property-based testing / small-scope enumeration).
//!
//! pv run <ID> <quick|thorough>     supervised run (spawns `pv child ...`, handles crashes/hangs)
//! pv child <ID> <quick|thorough>   the actual run
//! pv replay <file>                 re-run one saved case (bypasses proptest)
//! pv list                          list property ids with a check

#![allow(clippy::type_complexity)]
#![allow(dead_code)]


use pvlib::harness::{self, drive, replay, RunArgs, Tier, TrackingAlloc};
use pvlib::*;
use std::path::{Path, PathBuf};
use std::process::{Command, Stdio};
use std::time::{Duration, Instant};

#[global_allocator]
static ALLOC: TrackingAlloc = TrackingAlloc;

macro_rules! registry {
    ($($id:literal => $ctor:expr),* $(,)?) => {
        const IDS: &[&str] = &[$($id),*];
        fn run_child(id: &str, args: RunArgs) -> i32 {
            match id {
                $($id => drive($ctor, args),)*
                _ => { eprintln!("pv: no check for {id}"); 2 }
            }
        }
        fn run_replay(id: &str, path: &Path) -> i32 {
            match id {
                $($id => replay($ctor, path),)*
                _ => { eprintln!("pv: no check for {id}"); 2 }
            }
        }
    };
}

registry! {
    "C01" => c01::C01,
    "C02" => c02::C02,
    "C03" => c03::C03,
    "C04" => c04::C04,
    "C05" => c05::C05,
    "C06" => c06::C06,
    "C07" => c07::C07,
    "C08" => c08::C08,
    "C09" => c09::C09,
    "C10" => c10::C10,
    "C11" => c11::C11,
    "C12" => c12::C12,
    "C13" => c13::C13,
    "C14" => c14::C14,
    "C15" => c15::C15,
    "C16" => c16::C16,
    "C17" => c17::C17,
    "C18" => c18::C18,
    "C19" => c19::C19,
    "C20" => c20::C20,
}

fn parse_tier(s: &str) -> Tier {
    match s {
        "thorough" => Tier::Thorough,
        _ => Tier::Quick,
    }
}

fn seed() -> u64 {
    harness::env_u64("VERIF_SEED", 0)
}

fn replay_property(path: &Path) -> Option<String> {
    let s = std::fs::read_to_string(path).ok()?;
    let v: serde_json::Value = serde_json::from_str(&s).ok()?;
    v.get("property")?.as_str().map(|s| s.to_string())
}

/// Run a child and wait with a timeout. Returns (exit code or None if signalled/timeout, stdout).
fn spawn_wait(args: &[&str], envs: &[(&str, &str)], timeout: Duration) -> (Option<i32>, String, bool) {
    let exe = std::env::current_exe().expect("current_exe");
    let mut cmd = Command::new(exe);
    cmd.args(args).stdout(Stdio::piped()).stderr(Stdio::inherit());
    for (k, v) in envs {
        cmd.env(k, v);
    }
    let mut child = cmd.spawn().expect("spawn child");
    let mut stdout = child.stdout.take().unwrap();
    let reader = std::thread::spawn(move || {
        use std::io::Read;
        let mut s = String::new();
        let _ = stdout.read_to_string(&mut s);
        s
    });
    let t0 = Instant::now();
    let mut timed_out = false;
    let status = loop {
        match child.try_wait() {
            Ok(Some(st)) => break Some(st),
            Ok(None) => {
                if t0.elapsed() > timeout {
                    let _ = child.kill();
                    let _ = child.wait();
                    timed_out = true;
                    break None;
                }
                std::thread::sleep(Duration::from_millis(50));
            }
            Err(_) => break None,
        }
    };
    let out = reader.join().unwrap_or_default();
    (status.and_then(|s| s.code()), out, timed_out)
}

fn confirm_crash(id: &str, file: &Path, per_try: Duration) -> bool {
    // a case is a confirmed crash/hang if replaying it alone dies (signal) or times out 3 times
    for _ in 0..3 {
        let (code, _out, timed_out) = spawn_wait(
            &["replay-raw", id, file.to_str().unwrap()],
            &[("RUST_BACKTRACE", "0")],
            per_try,
        );
        if code.is_some() && !timed_out {
            return false;
        }
    }
    true
}

fn supervise(id: &str, tier: Tier) -> i32 {
    let budget = Duration::from_secs(harness::env_u64(
        "PV_WALL_LIMIT_S",
        tier.pick(1500, 6 * 3600),
    ));
    let (code, out, timed_out) = spawn_wait(&["child", id, tier.name()], &[], budget);
    print!("{out}");
    if timed_out {
        eprintln!("pv: wall-clock budget exceeded: inconclusive");
        return 2;
    }
    match code {
        Some(3) => {
            // hang reported by the child's watchdog
            let file = out
                .lines()
                .find_map(|l| l.strip_prefix(&format!("HANG property={id} replay=")))
                .map(PathBuf::from);
            if let Some(f) = file {
                let per_try = Duration::from_secs(tier.pick(300, 1800) + 30);
                if confirm_crash(id, &f, per_try) {
                    println!("pv: case hangs (or dies) on every one of 3 isolated replays");
                    println!("VIOLATION property={id} replay={}", f.display());
                    return 1;
                }
            }
            eprintln!("pv: hang did not reproduce in isolation: inconclusive");
            2
        }
        Some(c) => c,
        None => {
            eprintln!("pv: child died from a signal (abort / allocation failure / stack overflow); re-running in trace mode");
            let dir = harness::replay_dir(id);
            if let Ok(rd) = std::fs::read_dir(&dir) {
                for e in rd.flatten() {
                    if e.file_name().to_string_lossy().starts_with("inflight-") {
                        let _ = std::fs::remove_file(e.path());
                    }
                }
            }
            let (code2, _out2, _to) = spawn_wait(
                &["child", id, tier.name()],
                &[("PV_TRACE", "1"), ("PV_NO_EVIDENCE", "1"), ("RUST_BACKTRACE", "0")],
                budget,
            );
            if code2.is_some() {
                eprintln!("pv: crash did not reproduce in trace mode (exit {code2:?}): inconclusive");
                return 2;
            }
            let mut found = None;
            if let Ok(rd) = std::fs::read_dir(&dir) {
                let mut files: Vec<_> = rd.flatten().map(|e| e.path()).collect();
                files.sort();
                for f in files {
                    if f.file_name().unwrap().to_string_lossy().starts_with("inflight-")
                        && confirm_crash(id, &f, Duration::from_secs(600))
                    {
                        let h = harness::hash64(&std::fs::read_to_string(&f).unwrap_or_default());
                        let dst = dir.join(format!("crash-{h:016x}.json"));
                        let _ = std::fs::rename(&f, &dst);
                        found = Some(dst);
                        break;
                    }
                }
            }
            match found {
                Some(f) => {
                    println!("pv: the process dies (abort/alloc failure/stack overflow) on this case in 3 of 3 isolated replays");
                    println!("VIOLATION property={id} replay={}", f.display());
                    1
                }
                None => {
                    eprintln!("pv: no single in-flight case reproduces the crash: inconclusive");
                    2
                }
            }
        }
    }
}

/// Judge a libFuzzer artifact with the C08 monitors and the C07 oracle; on a violation write a
/// JSON replay case and print the VIOLATION line of the property concerned.
fn fuzz_artifact(path: &Path) -> i32 {
    use harness::Check;
    let Ok(data) = std::fs::read(path) else {
        eprintln!("pv: cannot read {}", path.display());
        return 2;
    };
    if data.len() < 2 {
        return 0;
    }
    let spec = fuzzsel::spec_from(data[0], data[1]).clone();
    let bytes = util::Hex(data[2..].to_vec());
    let c8 = c08::Case::Str { spec: spec.clone(), bytes: bytes.clone(), how: "fuzz artifact".into() };
    let c7 = c07::Case::Str { spec, bytes, expect: c07::Expect::Unknown, why: "fuzz artifact".into() };
    let h = harness::hash64(&data);
    let mut rc = 0;
    if let harness::Verdict::Violation { sig, what } = c08::C08.run(&c8).verdict {
        let p = harness::replay_dir("C08").join(format!("fuzz-{h:016x}.json"));
        let _ = std::fs::write(&p, serde_json::json!({"property": "C08", "sig": sig, "what": what, "case": c8}).to_string());
        println!("pv: violation sig={sig} what={what}");
        println!("VIOLATION property=C08 replay={}", p.display());
        rc = 1;
    }
    if let harness::Verdict::Violation { sig, what } = c07::C07.run(&c7).verdict {
        if !sig.contains("panic@") || rc == 0 {
            let p = harness::replay_dir("C07").join(format!("fuzz-{h:016x}.json"));
            let _ = std::fs::write(&p, serde_json::json!({"property": "C07", "sig": sig, "what": what, "case": c7}).to_string());
            println!("pv: violation sig={sig} what={what}");
            println!("VIOLATION property=C07 replay={}", p.display());
            rc = 1;
        }
    }
    rc
}

fn main() {
    harness::install_panic_hook();
    let args: Vec<String> = std::env::args().collect();
    let code = match args.get(1).map(|s| s.as_str()) {
        Some("list") => {
            for id in IDS {
                println!("{id}");
            }
            0
        }
        Some("run") if args.len() >= 4 => supervise(&args[2], parse_tier(&args[3])),
        Some("child") if args.len() >= 4 => run_child(
            &args[2],
            RunArgs {
                tier: parse_tier(&args[3]),
                seed: seed(),
            },
        ),
        Some("replay") if args.len() >= 3 => {
            let path = PathBuf::from(&args[2]);
            match replay_property(&path) {
                Some(id) => {
                    // isolate: a replayed case may abort the process
                    let (code, out, timed_out) = spawn_wait(
                        &["replay-raw", &id, path.to_str().unwrap()],
                        &[],
                        Duration::from_secs(3600),
                    );
                    print!("{out}");
                    match code {
                        Some(c) if !timed_out => c,
                        _ => {
                            println!("pv: replay died from a signal or timed out");
                            println!("VIOLATION property={id} replay={}", path.display());
                            1
                        }
                    }
                }
                None => {
                    eprintln!("pv: {} has no \"property\" field", path.display());
                    2
                }
            }
        }
        Some("replay-raw") if args.len() >= 4 => run_replay(&args[2], Path::new(&args[3])),
        Some("dump-corpus") if args.len() >= 3 => {
            let dir = PathBuf::from(&args[2]);
            let _ = std::fs::create_dir_all(&dir);
            for (i, f) in fuzzsel::seed_corpus().iter().enumerate() {
                let _ = std::fs::write(dir.join(format!("seed-{i:05}")), f);
            }
            0
        }
        Some("fuzz-artifact") if args.len() >= 3 => fuzz_artifact(Path::new(&args[2])),
        _ => {
            eprintln!("usage: pv run <ID> <quick|thorough> | pv replay <file> | pv list");
            2
        }
    };
    std::process::exit(code);
}
