//! Field/bigint bridges, serialisable big integers, tape RNG, biased XOF.

use num_bigint::BigUint;
use num_traits::{One, Zero};
use prio::field::{Field128, Field255, Field64, FieldElement, FieldPrio2};
use prio::vdaf::xof::{Seed, Xof, XofTurboShake128};
use proptest::prelude::*;
use rand_core::TryRng;
use serde::{Deserialize, Deserializer, Serialize, Serializer};
use std::convert::Infallible;
use std::fmt::Debug;

// ------------------------------------------------------------------------------------------------
// u128 that serialises as a decimal string (serde_json::Value cannot hold > u64)

#[derive(Clone, Copy, PartialEq, Eq, PartialOrd, Ord, Hash, Default)]
pub struct U(pub u128);

impl Debug for U {
    fn fmt(&self, f: &mut std::fmt::Formatter<'_>) -> std::fmt::Result {
        write!(f, "{}", self.0)
    }
}
impl Serialize for U {
    fn serialize<S: Serializer>(&self, s: S) -> Result<S::Ok, S::Error> {
        s.serialize_str(&self.0.to_string())
    }
}
impl<'de> Deserialize<'de> for U {
    fn deserialize<D: Deserializer<'de>>(d: D) -> Result<Self, D::Error> {
        let s = String::deserialize(d)?;
        s.parse::<u128>().map(U).map_err(serde::de::Error::custom)
    }
}
impl U {
    pub fn big(self) -> BigUint {
        BigUint::from(self.0)
    }
}

/// Hex-serialised byte string.
#[derive(Clone, PartialEq, Eq, Hash, Default, PartialOrd, Ord)]
pub struct Hex(pub Vec<u8>);
impl Debug for Hex {
    fn fmt(&self, f: &mut std::fmt::Formatter<'_>) -> std::fmt::Result {
        write!(f, "x\"{}\"", hex(&self.0))
    }
}
impl Serialize for Hex {
    fn serialize<S: Serializer>(&self, s: S) -> Result<S::Ok, S::Error> {
        s.serialize_str(&hex(&self.0))
    }
}
impl<'de> Deserialize<'de> for Hex {
    fn deserialize<D: Deserializer<'de>>(d: D) -> Result<Self, D::Error> {
        let s = String::deserialize(d)?;
        unhex(&s).map(Hex).ok_or_else(|| serde::de::Error::custom("bad hex"))
    }
}

pub fn hex(b: &[u8]) -> String {
    let mut s = String::with_capacity(b.len() * 2);
    for x in b {
        s.push_str(&format!("{x:02x}"));
    }
    s
}
pub fn unhex(s: &str) -> Option<Vec<u8>> {
    if s.len() % 2 != 0 {
        return None;
    }
    (0..s.len() / 2)
        .map(|i| u8::from_str_radix(&s[2 * i..2 * i + 2], 16).ok())
        .collect()
}

pub fn hexbytes(len: impl Into<proptest::collection::SizeRange>) -> BoxedStrategy<Hex> {
    proptest::collection::vec(any::<u8>(), len).prop_map(Hex).boxed()
}

/// Expand a 64-bit seed into `n` pseudo-random bytes (TurboSHAKE via the library's own XOF is
/// deliberately *not* used: the harness must not depend on the code under test for its inputs).
pub fn expand(seed: u64, stream: u64, n: usize) -> Vec<u8> {
    // splitmix64-based stream
    let mut out = Vec::with_capacity(n + 8);
    let mut s = seed ^ stream.wrapping_mul(0x9E3779B97F4A7C15) ^ 0xD1B54A32D192ED03;
    while out.len() < n {
        s = s.wrapping_add(0x9E3779B97F4A7C15);
        let mut z = s;
        z = (z ^ (z >> 30)).wrapping_mul(0xBF58476D1CE4E5B9);
        z = (z ^ (z >> 27)).wrapping_mul(0x94D049BB133111EB);
        z ^= z >> 31;
        out.extend_from_slice(&z.to_le_bytes());
    }
    out.truncate(n);
    out
}

pub fn expand_arr<const N: usize>(seed: u64, stream: u64) -> [u8; N] {
    let v = expand(seed, stream, N);
    let mut a = [0u8; N];
    a.copy_from_slice(&v);
    a
}

// ------------------------------------------------------------------------------------------------
// Field <-> BigUint bridge through the canonical little-endian encoding

pub trait FieldBig: FieldElement {
    const NAME: &'static str;
    fn modulus_big() -> BigUint;
    fn to_big(self) -> BigUint {
        let v: Vec<u8> = self.into();
        BigUint::from_bytes_le(&v)
    }
    /// Reduces modulo p first.
    fn from_big(x: &BigUint) -> Self {
        let r = x % Self::modulus_big();
        let mut bytes = r.to_bytes_le();
        bytes.resize(Self::ENCODED_SIZE, 0);
        Self::try_from(&bytes[..]).expect("canonical bytes")
    }
    fn from_u128(x: u128) -> Self {
        Self::from_big(&BigUint::from(x))
    }
}

impl FieldBig for FieldPrio2 {
    const NAME: &'static str = "FieldPrio2";
    fn modulus_big() -> BigUint {
        BigUint::from(4293918721u32)
    }
}
impl FieldBig for Field64 {
    const NAME: &'static str = "Field64";
    fn modulus_big() -> BigUint {
        BigUint::from(18446744069414584321u64)
    }
}
impl FieldBig for Field128 {
    const NAME: &'static str = "Field128";
    fn modulus_big() -> BigUint {
        BigUint::from(340282366920938462946865773367900766209u128)
    }
}
impl FieldBig for Field255 {
    const NAME: &'static str = "Field255";
    fn modulus_big() -> BigUint {
        (BigUint::one() << 255usize) - BigUint::from(19u32)
    }
}

pub const P64: u64 = 18446744069414584321u64;
pub const P128: u128 = 340282366920938462946865773367900766209u128;
pub const P32: u32 = 4293918721u32;

pub fn big_mod_inv(a: &BigUint, p: &BigUint) -> BigUint {
    // p prime
    a.modpow(&(p - BigUint::from(2u32)), p)
}

pub fn big_sub_mod(a: &BigUint, b: &BigUint, p: &BigUint) -> BigUint {
    ((a % p) + p - (b % p)) % p
}

pub fn encode_vec<F: FieldElement>(v: &[F]) -> Vec<u8> {
    let mut out = Vec::with_capacity(v.len() * F::ENCODED_SIZE);
    for x in v {
        let b: Vec<u8> = (*x).into();
        out.extend_from_slice(&b);
    }
    out
}

pub fn decode_vec<F: FieldElement>(b: &[u8]) -> Option<Vec<F>> {
    if b.len() % F::ENCODED_SIZE != 0 {
        return None;
    }
    b.chunks(F::ENCODED_SIZE).map(|c| F::try_from(c).ok()).collect()
}

pub fn is_zero_big(x: &BigUint) -> bool {
    x.is_zero()
}

// ------------------------------------------------------------------------------------------------
// Tape RNG: serves bytes from a fixed tape, then a deterministic filler.

#[derive(Clone, Debug)]
pub struct TapeRng {
    pub tape: Vec<u8>,
    pub pos: usize,
    pub filler_seed: u64,
    pub reads: Vec<usize>,
}

impl TapeRng {
    pub fn new(tape: Vec<u8>, filler_seed: u64) -> Self {
        TapeRng {
            tape,
            pos: 0,
            filler_seed,
            reads: vec![],
        }
    }
    pub fn byte_at(&self, i: usize) -> u8 {
        if i < self.tape.len() {
            self.tape[i]
        } else {
            let blk = (i / 8) as u64;
            expand(self.filler_seed, blk, 8)[i % 8]
        }
    }
    /// The first `n` bytes this RNG will ever produce.
    pub fn prefix(&self, n: usize) -> Vec<u8> {
        (0..n).map(|i| self.byte_at(i)).collect()
    }
}

impl TryRng for TapeRng {
    type Error = Infallible;
    fn try_next_u32(&mut self) -> Result<u32, Infallible> {
        let mut b = [0u8; 4];
        self.try_fill_bytes(&mut b)?;
        Ok(u32::from_le_bytes(b))
    }
    fn try_next_u64(&mut self) -> Result<u64, Infallible> {
        let mut b = [0u8; 8];
        self.try_fill_bytes(&mut b)?;
        Ok(u64::from_le_bytes(b))
    }
    fn try_fill_bytes(&mut self, dest: &mut [u8]) -> Result<(), Infallible> {
        self.reads.push(dest.len());
        for d in dest.iter_mut() {
            *d = self.byte_at(self.pos);
            self.pos += 1;
        }
        Ok(())
    }
}

// ------------------------------------------------------------------------------------------------
// BiasedXof: TurboSHAKE128 output with some aligned 32-byte blocks replaced by 0xFF.. so that the
// rejection-sampling path of field sampling is taken constantly. It is a deterministic function of
// (seed, dst, binder) and independent of read chunking, i.e. a legitimate `Xof`.

#[derive(Clone, Debug)]
pub struct BiasedXof(XofTurboShake128);

pub struct BiasedStream {
    inner: <XofTurboShake128 as Xof<32>>::SeedStream,
    block: [u8; 32],
    used: usize,
    index: u64,
}

impl BiasedStream {
    fn refill(&mut self) {
        use rand_core::Rng;
        self.inner.fill_bytes(&mut self.block);
        // 1/4 of the blocks after the first become all-ones (the first block stays intact so that
        // derived seeds remain collision-free: robustness properties rely on that)
        if self.index >= 1 && self.block[0] < 64 {
            self.block = [0xFF; 32];
        }
        self.index += 1;
        self.used = 0;
    }
}

impl TryRng for BiasedStream {
    type Error = Infallible;
    fn try_next_u32(&mut self) -> Result<u32, Infallible> {
        let mut b = [0u8; 4];
        self.try_fill_bytes(&mut b)?;
        Ok(u32::from_le_bytes(b))
    }
    fn try_next_u64(&mut self) -> Result<u64, Infallible> {
        let mut b = [0u8; 8];
        self.try_fill_bytes(&mut b)?;
        Ok(u64::from_le_bytes(b))
    }
    fn try_fill_bytes(&mut self, dest: &mut [u8]) -> Result<(), Infallible> {
        for d in dest.iter_mut() {
            if self.used == 32 {
                self.refill();
            }
            *d = self.block[self.used];
            self.used += 1;
        }
        Ok(())
    }
}

impl Xof<32> for BiasedXof {
    type SeedStream = BiasedStream;
    fn init(seed_bytes: &[u8; 32], dst_parts: &[&[u8]]) -> Self {
        BiasedXof(XofTurboShake128::init(seed_bytes, dst_parts))
    }
    fn update(&mut self, data: &[u8]) {
        self.0.update(data)
    }
    fn into_seed_stream(self) -> BiasedStream {
        BiasedStream {
            inner: self.0.into_seed_stream(),
            block: [0; 32],
            used: 32,
            index: 0,
        }
    }
}

pub fn seed_from<const N: usize>(bytes: &[u8; N]) -> Seed<N> {
    use prio::codec::Decode;
    Seed::<N>::get_decoded(&bytes[..]).expect("seed decode")
}

/// Binary op on BigUint vectors mod p
pub fn vec_add_mod(a: &[BigUint], b: &[BigUint], p: &BigUint) -> Vec<BigUint> {
    a.iter().zip(b).map(|(x, y)| (x + y) % p).collect()
}
