//! C08 — decoders are total: arbitrary bytes give a value or an error, never a crash.

use crate::c07::{build, spec_strategy};
use crate::codec::*;
pub use crate::codec::fixed_specs;
use crate::harness::*;
use crate::p3::*;
use crate::util::*;
use proptest::prelude::*;
use serde::{Deserialize, Serialize};

pub struct C08;

#[derive(Clone, Debug, Serialize, Deserialize)]
pub enum Case {
    /// "", [b0] (if first) and all [b0, b1]
    ShortBlock { spec: Spec, b0: u8, with_empty: bool },
    /// all 3-byte strings [b0, b1, *]
    ShortBlock3 { spec: Spec, b0: u8, b1: u8 },
    /// one string
    Str { spec: Spec, bytes: Hex, how: String },
    /// a near-valid string from the C07 grammar and all its single-bit flips and truncations
    Mutations { spec: Spec, seed: u64 },
    /// the public vector helpers of `prio::codec` (decode_u8/u16/u32/fixlen_items) on a generated
    /// buffer with the cursor at every position from 0 to past the end, for generated lengths
    Helpers { bytes: Hex, seed: u64 },
}

/// Specs whose encoding starts with header fields (tags, counts, lengths): 3-byte enumeration.
fn header_specs() -> Vec<Spec> {
    vec![Spec::PopAggParam, Spec::PingPongMessage, Spec::PopState { bits: 4, agg: 0 }, Spec::PopState { bits: 4, agg: 1 }, Spec::PopContinuation { bits: 4, agg: 0 }]
}

/// Header fields at their extreme values × body lengths.
fn header_extremes() -> Vec<(Spec, Vec<u8>, String)> {
    let mut out = vec![];
    let u16s: [u16; 8] = [0, 1, 7, 8, 0x7FFF, 0x8000, 0xFFFE, 0xFFFF];
    let u32s: [u32; 9] = [0, 1, 2, 0x7FFF_FFFF, 0x8000_0000, 0xFFFF_FFFE, 0xFFFF_FFFF, 0x0001_0000, 0x0100_0000];
    // aggregation parameter: level × count × body length
    for level in u16s {
        for count in u32s {
            let plen = (level as usize + 1).div_ceil(8);
            for body in [0usize, 1, plen.saturating_sub(1), plen, plen + 1, 2 * plen] {
                let mut b = vec![];
                b.extend_from_slice(&level.to_be_bytes());
                b.extend_from_slice(&count.to_be_bytes());
                b.extend(std::iter::repeat(0u8).take(body));
                out.push((Spec::PopAggParam, b, format!("agg param level={level:#x} count={count:#x} body={body}")));
            }
        }
    }
    // verifier state: tags × sketch tag × output_share_len extremes × body
    for vt in [0u8, 1, 2, 0xFF] {
        for st in [0u8, 1, 2, 0xFF] {
            for count in u32s {
                let fsz = if vt == 1 { 32 } else { 8 };
                for body in [0usize, fsz - 1, fsz, fsz + 1] {
                    let mut b = vec![vt, st];
                    if st == 0 {
                        b.extend(std::iter::repeat(0u8).take(2 * fsz));
                    }
                    b.extend_from_slice(&count.to_be_bytes());
                    b.extend(std::iter::repeat(0u8).take(body));
                    for spec in [Spec::PopState { bits: 4, agg: 0 }, Spec::PopContinuation { bits: 4, agg: 1 }] {
                        out.push((spec, b.clone(), format!("verifier state tags=({vt},{st}) count={count:#x} body={body}")));
                    }
                }
            }
        }
    }
    // ping-pong message: tag × length prefixes
    for tag in [0u8, 1, 2, 3, 0xFF] {
        for l1 in u32s {
            for l2 in [0u32, 1, 0xFFFF_FFFF] {
                for body in [0usize, 1, 5] {
                    let mut b = vec![tag];
                    b.extend_from_slice(&l1.to_be_bytes());
                    b.extend(std::iter::repeat(0u8).take(body.min(l1 as usize)));
                    b.extend_from_slice(&l2.to_be_bytes());
                    b.extend(std::iter::repeat(0u8).take(body));
                    out.push((Spec::PingPongMessage, b, format!("ping-pong tag={tag} l1={l1:#x} l2={l2:#x} body={body}")));
                }
            }
        }
    }
    out
}

/// Aggregator identifiers no instance has (instances have at most 254 aggregators), chosen so that
/// some alias a real identifier modulo 2^8, 2^16 or 2^32.
pub const WILD_IDS: [usize; 20] = [2, 3, 254, 255, 256, 257, 258, 511, 512, 513, 65535, 65536, 65537, 1 << 32, (1 << 32) + 1, usize::MAX - 255, usize::MAX - 254, usize::MAX, 1 << 63, (1 << 63) + 1];

/// Encoding of an aggregation parameter with `n` prefixes of `plen` bytes (level 8·plen − 1).
/// twist 0: strictly increasing (canonical, must be accepted); 1: the last two equal; 2: the last
/// two exchanged; 3: one byte short.
pub fn big_agg_param(plen: usize, n: u32, twist: u8) -> Vec<u8> {
    let level = (8 * plen - 1) as u16;
    let mut out = Vec::with_capacity(6 + plen * n as usize);
    out.extend_from_slice(&level.to_be_bytes());
    out.extend_from_slice(&n.to_be_bytes());
    let step: u64 = if plen >= 3 { 37 } else { 3 };
    let val = |k: u64| -> Vec<u8> { (k * step + 1).to_be_bytes()[8 - plen.min(8)..].to_vec() };
    for k in 0..n as u64 {
        let k = match (twist, n as u64 - k) {
            (1, 1) => k - 1,
            (2, 1) => k - 1,
            (2, 2) => k + 1,
            _ => k,
        };
        let mut b = val(k);
        while b.len() < plen {
            b.insert(0, 0);
        }
        out.extend_from_slice(&b);
    }
    if twist == 3 {
        out.pop();
    }
    out
}

fn alloc_bound(spec: &Spec, len: usize) -> usize {
    (64 << 10) + 64 * len + 8 * nominal_len(spec)
}

/// CPU time consumed by the calling thread (not wall time: insensitive to machine load).
pub fn thread_cpu_ns() -> u64 {
    let mut ts = libc::timespec { tv_sec: 0, tv_nsec: 0 };
    // SAFETY: plain syscall writing into a local
    unsafe { libc::clock_gettime(libc::CLOCK_THREAD_CPUTIME_ID, &mut ts) };
    ts.tv_sec as u64 * 1_000_000_000 + ts.tv_nsec as u64
}

/// "Terminates promptly": thread CPU time allowed for decoding `len` bytes. The decoders are linear
/// and take well under 100 ns per byte in this build; the bound leaves more than two orders of
/// magnitude (2 s + 20 µs per byte), and an excess only counts if two repetitions exceed it too.
fn cpu_bound_ns(len: usize) -> u64 {
    2_000_000_000 + 20_000 * len as u64
}

/// Decode once under the monitors. Returns a violation (sig, what) if any.
fn monitored(prep: &Prepared, spec: &Spec, bytes: &[u8]) -> Option<(String, String)> {
    let t0 = thread_cpu_ns();
    let (rt, st) = track_alloc(|| prep(bytes, Mode::DecodeOnly));
    let spent = thread_cpu_ns() - t0;
    let fam = spec.family();
    if spent > cpu_bound_ns(bytes.len()) {
        let mut all = vec![spent];
        for _ in 0..2 {
            let t = thread_cpu_ns();
            let _ = prep(bytes, Mode::DecodeOnly);
            all.push(thread_cpu_ns() - t);
        }
        if all.iter().all(|t| *t > cpu_bound_ns(bytes.len())) {
            return Some((format!("{fam}-cpu-time"), format!("{spec:?}: decoding {} bytes took {:?} ms of thread CPU time in three runs; the bound for a prompt decoder is {} ms (2 s + 20 µs per byte)", bytes.len(), all.iter().map(|t| t / 1_000_000).collect::<Vec<_>>(), cpu_bound_ns(bytes.len()) / 1_000_000)));
        }
    }
    if let Some(p) = &rt.panic {
        let loc = p.split_once(": ").map(|x| x.1).unwrap_or(p);
        return Some((format!("{fam}-{}", panic_sig(loc)), format!("{spec:?}: decoder panicked on {} ({} bytes): {p}", hex(&bytes[..bytes.len().min(64)]), bytes.len())));
    }
    let bound = alloc_bound(spec, bytes.len());
    if st.peak > bound || st.max_request > bound {
        return Some((format!("{fam}-allocation"), format!("{spec:?}: decoding {} bytes ({}) allocated peak {} bytes (largest request {}), bound {}", bytes.len(), hex(&bytes[..bytes.len().min(32)]), st.peak, st.max_request, bound)));
    }
    None
}

/// The vector helpers of `prio::codec` with the cursor anywhere, including past the end of the
/// buffer (a position the cursor type allows and earlier reads or seeks can leave behind).
fn run_helpers(buf: &[u8], seed: u64) -> Outcome {
    use prio::codec::{decode_fixlen_items, decode_u16_items, decode_u32_items, decode_u8_items};
    use prio::field::Field64;
    use std::io::Cursor;
    let mut obs = Obs::new();
    obs.label("family:codec-helpers");
    let mut n = 0u64;
    let mut positions: Vec<u64> = (0..=buf.len() as u64 + 9).collect();
    positions.extend_from_slice(&[u32::MAX as u64, u64::MAX / 2, u64::MAX - 1, u64::MAX]);
    let lengths: Vec<usize> = {
        let mut l: Vec<usize> = (0..=10).collect();
        l.extend_from_slice(&[buf.len(), buf.len() + 1, (seed % 64) as usize, usize::MAX, usize::MAX - 1, usize::MAX / 2 + 1, 1 << 32]);
        l
    };
    for &pos in &positions {
        macro_rules! probe {
            ($what:expr, $call:expr) => {{
                n += 1;
                let mut c = Cursor::new(buf);
                c.set_position(pos);
                let (r, st) = track_alloc(|| guard(|| $call(&mut c).map(|v: Vec<_>| v.len())));
                match r {
                    Err(p) => {
                        obs.fail(format!("codec-helper-{}", panic_sig(&p)), format!("{} on a {}-byte buffer with the cursor at {pos} panicked: {p}", $what, buf.len()));
                        obs.evals = n;
                        return obs.finish();
                    }
                    Ok(Ok(k)) if pos as usize > buf.len() && k > 0 => {
                        obs.fail("codec-helper-reads-past-end", format!("{} with the cursor at {pos} (past the end of {} bytes) decoded {k} items", $what, buf.len()));
                        obs.evals = n;
                        return obs.finish();
                    }
                    _ => {}
                }
                if st.peak > (64 << 10) + 64 * buf.len() {
                    obs.fail("codec-helper-allocation", format!("{} on a {}-byte buffer (cursor {pos}) allocated {} bytes", $what, buf.len(), st.peak));
                    obs.evals = n;
                    return obs.finish();
                }
            }};
        }
        probe!("decode_u8_items::<u8>", |c: &mut Cursor<&[u8]>| decode_u8_items::<(), u8>(&(), c));
        probe!("decode_u16_items::<u16>", |c: &mut Cursor<&[u8]>| decode_u16_items::<(), u16>(&(), c));
        probe!("decode_u32_items::<Field64>", |c: &mut Cursor<&[u8]>| decode_u32_items::<(), Field64>(&(), c));
        for &len in &lengths {
            probe!(format!("decode_fixlen_items::<u8>(length {len})"), |c: &mut Cursor<&[u8]>| decode_fixlen_items::<(), u8>(len, &(), c));
            probe!(format!("decode_fixlen_items::<u64>(length {len})"), |c: &mut Cursor<&[u8]>| decode_fixlen_items::<(), u64>(len, &(), c));
        }
    }
    obs.nt();
    obs.evals = n;
    obs.finish()
}

impl Check for C08 {
    type Case = Case;
    const ID: &'static str = "C08";
    fn rule(&self) -> String {
        "every (type, parameter) of a fixed table × every byte string of length ≤ 2 (≤ 3 for header-bearing types in the thorough tier), enumerated; header fields (level, counts, u32 length prefixes, tags) at {0,1,…,0x7F..,0x80..,0xFF..−1,0xFF..} × body lengths around the exact one, enumerated; generated: near-valid strings from the C07 grammar over generated parameters, each with all single-bit flips and all truncations, spliced strings, and near-valid strings decoded under aggregator identifiers that do not exist (2…2^63+1, incl. values aliasing a real identifier modulo 2^8/2^16/2^32). also: well-formed and almost well-formed encodings of 40 KB – 1.6 MB (aggregation parameters with up to 100 000 prefixes, field vectors, ping-pong messages), and the public vector helpers of prio::codec with the cursor at every position from 0 to past the end. Monitors: no panic (overflow checks on), thread CPU time ≤ 2 s + 20 µs per input byte (confirmed by two repetitions), thread-local peak allocation and largest single request ≤ 64 KiB + 64·len + 8·(nominal encoding size for the parameter), per-case watchdog. Non-trivial = non-empty string; enumerated strings are distinct by construction, generated base strings by hash; the bit-flip/truncation mutants derived from a base string are executed (evaluations) but conservatively NOT counted in distinct_nontrivial".into()
    }
    fn assumptions(&self) -> Vec<String> {
        vec!["allocation is measured with a counting global allocator on the decoding thread; requests above 2 GiB are refused so that an attacker-sized allocation aborts the (supervised) process deterministically".into()]
    }
    fn strategy(&self, _tier: Tier) -> BoxedStrategy<Case> {
        prop_oneof![
            6 => (spec_strategy(), any::<u64>()).prop_map(|(spec, seed)| Case::Mutations { spec, seed }),
            2 => (spec_strategy(), spec_strategy(), any::<u64>(), any::<u16>()).prop_map(|(spec, other, seed, cut)| {
                // splice: a prefix of one type's encoding followed by another type's
                let a = build(&spec, seed, 0).bytes;
                let b = build(&other, seed ^ 1, 0).bytes;
                let k = idx16(cut, a.len() + 1);
                let mut bytes = a[..k].to_vec();
                bytes.extend_from_slice(&b);
                Case::Str { spec, bytes: Hex(bytes), how: "splice".into() }
            }),
            2 => (spec_strategy(), proptest::collection::vec(any::<u8>(), 0..200)).prop_map(|(spec, bytes)| Case::Str { spec, bytes: Hex(bytes), how: "random".into() }),
            1 => (proptest::collection::vec(any::<u8>(), 0..48), any::<u64>()).prop_map(|(bytes, seed)| Case::Helpers { bytes: Hex(bytes), seed }),
            // decoding parameters outside the instance: aggregator identifiers that do not exist,
            // including ones that alias a real identifier in a narrower integer type; the string is
            // a canonical (or near-valid) encoding for the identifier's low bit
            2 => (spec_strategy(), any::<u64>(), 0usize..WILD_IDS.len(), 0u64..9).prop_map(|(spec, seed, k, bad)| {
                let bytes = build(&spec, seed, bad).bytes;
                let id = WILD_IDS[k];
                let spec = match spec {
                    Spec::P3Input(c, _) => Spec::P3Input(c, id),
                    Spec::P3State(c, _) => Spec::P3State(c, id),
                    Spec::P3Continuation(c, _) => Spec::P3Continuation(c, id),
                    Spec::PopInput { bits, aes, .. } => Spec::PopInput { bits, aes, agg: id },
                    Spec::PopState { bits, .. } => Spec::PopState { bits, agg: id },
                    Spec::PopContinuation { bits, .. } => Spec::PopContinuation { bits, agg: id },
                    Spec::Prio2Input { len, .. } => Spec::Prio2Input { len, agg: id },
                    Spec::Prio2State { len, .. } => Spec::Prio2State { len, agg: id },
                    Spec::Prio2Continuation { len, .. } => Spec::Prio2Continuation { len, agg: id },
                    other => other,
                };
                Case::Str { spec, bytes: Hex(bytes), how: "wild-agg-id".into() }
            }),
        ]
        .boxed()
    }
    fn num_cases(&self, tier: Tier) -> u64 {
        tier.pick(40_000, 2_000_000)
    }
    fn enumerate(&self, tier: Tier, shard: usize, nshards: usize, f: &mut dyn FnMut(Case) -> bool) {
        let mut i = 0usize;
        for spec in fixed_specs() {
            for b0 in 0..=255u8 {
                i += 1;
                if i % nshards != shard {
                    continue;
                }
                if !f(Case::ShortBlock { spec: spec.clone(), b0, with_empty: b0 == 0 }) {
                    return;
                }
            }
        }
        for (spec, bytes, how) in header_extremes() {
            i += 1;
            if i % nshards != shard {
                continue;
            }
            if !f(Case::Str { spec, bytes: Hex(bytes), how }) {
                return;
            }
        }
        {
            let specs = if tier == Tier::Thorough { header_specs() } else { vec![Spec::PopAggParam, Spec::PingPongMessage] };
            for spec in specs {
                for b0 in 0..=255u8 {
                    for b1 in 0..=255u8 {
                        i += 1;
                        if i % nshards != shard {
                            continue;
                        }
                        if !f(Case::ShortBlock3 { spec: spec.clone(), b0, b1 }) {
                            return;
                        }
                    }
                }
            }
        }
    }
    fn enumerated_space(&self, tier: Tier) -> Option<String> {
        Some(format!(
            "{} (type, parameter) pairs × all 65 793 byte strings of length 0..=2; {} header-extreme strings{}",
            fixed_specs().len(),
            header_extremes().len(),
            format!("; {} header-bearing types × all 2^24 strings of length 3", if tier == Tier::Thorough { header_specs().len() } else { 2 })
        ))
    }
    fn builtin_corpus(&self) -> Vec<Case> {
        let mut v = vec![
            // DESIGN.md §5 #3: level 0xFFFF (fixed)
            Case::Str { spec: Spec::PopAggParam, bytes: Hex(vec![0xff, 0xff, 0, 0, 0, 1, 0]), how: "level 0xFFFF, one prefix, one body byte".into() },
            Case::Str { spec: Spec::PopAggParam, bytes: Hex(vec![0xff, 0xff, 0xff, 0xff, 0xff, 0xff]), how: "level 0xFFFF, count 0xFFFFFFFF".into() },
        ];
        // large well-formed (and almost well-formed) encodings: a decoder whose work is not linear
        // in the input only shows on long inputs that it does not refuse early
        for (plen, n) in [(3usize, 65_536u32), (2, 20_000), (4, 100_000), (8, 30_000)] {
            for twist in 0..4u8 {
                v.push(Case::Str { spec: Spec::PopAggParam, bytes: Hex(big_agg_param(plen, n, twist)), how: format!("large aggregation parameter: {n} prefixes of {plen} bytes, variant {twist}") });
            }
        }
        for (bits, level, n) in [(30usize, 19usize, 50_000usize), (17, 16, 40_000)] {
            let spec = Spec::PopFieldVecByParam { bits, level, n };
            let esz = if level == bits - 1 { 32 } else { 8 };
            let mut bytes = vec![0u8; n * esz];
            for (i, b) in bytes.iter_mut().enumerate() {
                *b = if i % esz == esz - 1 { 0 } else { (i * 31 % 251) as u8 };
            }
            v.push(Case::Str { spec: spec.clone(), bytes: Hex(bytes.clone()), how: "large field vector (canonical)".into() });
            bytes.pop();
            v.push(Case::Str { spec, bytes: Hex(bytes), how: "large field vector (one byte short)".into() });
        }
        {
            let payload = |n: usize, salt: u8| -> Vec<u8> { (0..n).map(|i| (i as u8).wrapping_mul(37) ^ salt).collect() };
            let mut m = vec![1u8];
            for (n, salt) in [(700_000usize, 1u8), (900_000, 2)] {
                m.extend_from_slice(&(n as u32).to_be_bytes());
                m.extend_from_slice(&payload(n, salt));
            }
            v.push(Case::Str { spec: Spec::PingPongMessage, bytes: Hex(m.clone()), how: "large ping-pong Continue message".into() });
            m.truncate(m.len() - 1);
            v.push(Case::Str { spec: Spec::PingPongMessage, bytes: Hex(m), how: "large ping-pong Continue message (one byte short)".into() });
        }
        for seed in 0..6u64 {
            v.push(Case::Helpers { bytes: Hex(crate::util::expand(seed, 77, 40)), seed });
        }
        v
    }
    fn run(&self, case: &Case) -> Outcome {
        let mut obs = Obs::new();
        if let Case::Helpers { bytes, seed } = case {
            return run_helpers(&bytes.0, *seed);
        }
        let spec = match case {
            Case::ShortBlock { spec, .. } | Case::ShortBlock3 { spec, .. } | Case::Str { spec, .. } | Case::Mutations { spec, .. } => spec,
            Case::Helpers { .. } => unreachable!(),
        };
        obs.label(format!("family:{}", spec.family()));
        let prep = match prepare(spec) {
            Ok(p) => p,
            Err(e) => {
                obs.fail("spec-construction", format!("cannot construct the decoding parameter for {spec:?}: {e}"));
                return obs.finish();
            }
        };
        let mut n = 0u64;
        let mut nt = 0u64;
        let mut hashes = vec![];
        let spec_h = hash64(&format!("{spec:?}"));
        // `kind`: 0 = enumerated (distinct by construction), 1 = hashed, 2 = derived mutant (not
        // counted as distinct: conservative)
        let mut try_one = |bytes: &[u8], kind: u8, obs: &mut Obs| -> bool {
            n += 1;
            if !bytes.is_empty() {
                match kind {
                    0 => nt += 1,
                    1 => hashes.push(hash64(&(spec_h, bytes))),
                    _ => {}
                }
            }
            if let Some((s, w)) = monitored(&prep, spec, bytes) {
                obs.fail(s, w);
                return false;
            }
            true
        };
        match case {
            Case::ShortBlock { b0, with_empty, .. } => {
                obs.label("enumerated:len<=2");
                let mut ok = true;
                if *with_empty {
                    ok = try_one(&[], 0, &mut obs);
                }
                ok = ok && try_one(&[*b0], 0, &mut obs);
                if ok {
                    for b1 in 0..=255u8 {
                        if !try_one(&[*b0, b1], 0, &mut obs) {
                            break;
                        }
                    }
                }
            }
            Case::ShortBlock3 { b0, b1, .. } => {
                obs.label("enumerated:len=3");
                for b2 in 0..=255u8 {
                    if !try_one(&[*b0, *b1, b2], 0, &mut obs) {
                        break;
                    }
                }
            }
            Case::Str { bytes, how, .. } => {
                obs.label(format!("str:{}", how.split(' ').next().unwrap_or("")));
                try_one(&bytes.0, 1, &mut obs);
            }
            Case::Helpers { .. } => unreachable!(),
            Case::Mutations { seed, .. } => {
                obs.label("mutations");
                let base = build(spec, *seed, 4).bytes;
                let mut ok = try_one(&base, 1, &mut obs);
                // all truncations
                if ok {
                    for k in 0..base.len() {
                        if !try_one(&base[..k], 2, &mut obs) {
                            ok = false;
                            break;
                        }
                    }
                }
                // all single-bit flips (messages ≤ 4 KiB), a stride of them for larger ones
                if ok {
                    let total_bits = base.len() * 8;
                    let stride = (total_bits / 32768).max(1);
                    let mut m = base.clone();
                    let mut bit = 0;
                    while bit < total_bits {
                        m[bit / 8] ^= 1 << (bit % 8);
                        let good = try_one(&m, 2, &mut obs);
                        m[bit / 8] ^= 1 << (bit % 8);
                        if !good {
                            break;
                        }
                        bit += stride;
                    }
                    // extension
                    let mut e = base.clone();
                    e.extend_from_slice(&[0xFF; 3]);
                    try_one(&e, 2, &mut obs);
                }
            }
        }
        obs.evals = n.max(1);
        obs.inner_nontrivial = nt;
        obs.inner_hashes = hashes;
        obs.finish()
    }
}
