//! C19 — Prio2 (full check added below); `harvest` feeds C07.

use crate::codec::Spec;
use crate::gen::arr_from;
use crate::p3::{combine_wire, init_wire, next_wire, AggInput, NextOut};
use crate::util::*;
use prio::codec::Encode;
use prio::vdaf::prio2::Prio2;
use prio::vdaf::Client;

/// Honest Prio2 run; returns every wire message.
pub fn harvest(len: usize, seed: u64) -> Vec<(Spec, Vec<u8>)> {
    let mut out = vec![];
    let Ok(vdaf) = Prio2::new(len) else { return out };
    let bits = expand(seed, 1, len);
    let meas: Vec<u32> = bits.iter().map(|b| (b & 1) as u32).collect();
    let nonce: [u8; 16] = arr_from(seed ^ 0x77);
    let key: [u8; 32] = arr_from(seed ^ 0x99);
    let Ok(((), shares)) = vdaf.shard(b"", &meas, &nonce) else { return out };
    let mut inputs = vec![];
    for (j, s) in shares.iter().enumerate() {
        let Ok(b) = s.get_encoded() else { return out };
        out.push((Spec::Prio2Input { len, agg: j }, b.clone()));
        inputs.push(AggInput::<32> { agg_id: j, verify_key: key, ctx: vec![], nonce, public_share: vec![], input_share: b });
    }
    let mut states = vec![];
    let mut vshares = vec![];
    for a in &inputs {
        let Ok(o) = init_wire(&vdaf, &(), a) else { return out };
        if let Ok(b) = o.state.get_encoded() {
            out.push((Spec::Prio2State { len, agg: a.agg_id }, b.clone()));
            out.push((Spec::Prio2Continuation { len, agg: a.agg_id }, b));
        }
        out.push((Spec::Prio2VerifierShare, o.verifier_share.clone()));
        states.push(o.state);
        vshares.push(o.verifier_share);
    }
    let Ok(msg) = combine_wire(&vdaf, b"", &(), &states[0], &vshares) else { return out };
    for (j, st) in states.into_iter().enumerate() {
        if let Ok(NextOut::Finish(b)) = next_wire(&vdaf, j, b"", &(), st, &msg) {
            out.push((Spec::Prio2Output { len }, b.clone()));
            out.push((Spec::Prio2Agg { len }, b));
        }
    }
    out
}
