//! C06 — IDPF: shares reconstruct the programmed point function; caches are transparent.

use crate::c03::Bits;
use crate::codec::IdpfKind;
use crate::gen::{bytes_from, ctx_strategy};
use crate::harness::*;
use crate::util::*;
use bitvec::prelude::*;
use num_bigint::BigUint;
use prio::codec::Encode;
use prio::field::{Field128, Field255, Field64, FieldPrio2};
use prio::idpf::{HashMapCache, Idpf, IdpfCache, IdpfInput, IdpfOutputShare, IdpfValue, NoCache, RingBufferCache};
use prio::vdaf::poplar1::Poplar1IdpfValue;
use proptest::prelude::*;
use serde::{Deserialize, Serialize};
use std::cell::Cell;
use std::collections::HashMap;

pub struct C06;

#[derive(Clone, Debug, Serialize, Deserialize, PartialEq, Eq)]
pub enum CacheKind {
    No,
    HashMap,
    Ring(usize),
    /// harness cache: stores / refuses / forgets according to a tape, never fabricates
    Tape(u64),
}

#[derive(Clone, Debug, Serialize, Deserialize)]
pub struct Case {
    pub kind: IdpfKind,
    pub input: Bits,
    pub value_seed: u64,
    pub ctx: Hex,
    pub nonce: Hex,
    pub cache: CacheKind,
    /// evaluations sharing one cache per aggregator: (aggregator, prefix)
    pub history: Vec<(u8, Bits)>,
    /// additionally evaluate every prefix of every length (small trees)
    pub all_prefixes: bool,
}

// ------------------------------------------------------------------------------------------------

pub trait ValGen: IdpfValue<ValueParameter = ()> + Clone {
    fn make(seed: u64, stream: u64) -> Self;
}

macro_rules! valgen_field {
    ($f:ty) => {
        impl ValGen for $f {
            fn make(seed: u64, stream: u64) -> Self {
                <$f as FieldBig>::from_big(&BigUint::from_bytes_le(&expand(seed, stream, 48)))
            }
        }
        impl ValGen for Poplar1IdpfValue<$f> {
            fn make(seed: u64, stream: u64) -> Self {
                Poplar1IdpfValue::new([<$f as ValGen>::make(seed, stream), <$f as ValGen>::make(seed, stream + 1_000_000)])
            }
        }
    };
}
valgen_field!(FieldPrio2);
valgen_field!(Field64);
valgen_field!(Field128);
valgen_field!(Field255);

struct Snoop<'a> {
    inner: &'a mut dyn IdpfCache,
    hits: &'a Cell<u64>,
    inserts: &'a Cell<u64>,
}

impl<'a> IdpfCache for Snoop<'a> {
    fn get(&self, input: &BitSlice) -> Option<([u8; 16], u8)> {
        let r = self.inner.get(input);
        if r.is_some() {
            self.hits.set(self.hits.get() + 1);
        }
        r
    }
    fn insert(&mut self, input: &BitSlice, values: &([u8; 16], u8)) {
        self.inserts.set(self.inserts.get() + 1);
        self.inner.insert(input, values)
    }
}

struct TapeCache {
    map: HashMap<Vec<bool>, ([u8; 16], u8)>,
    seed: u64,
    ctr: Cell<u64>,
    losses: Cell<u64>,
}

impl TapeCache {
    fn next(&self) -> u8 {
        let c = self.ctr.get();
        self.ctr.set(c + 1);
        expand(self.seed, c, 1)[0]
    }
}

impl IdpfCache for TapeCache {
    fn get(&self, input: &BitSlice) -> Option<([u8; 16], u8)> {
        let key: Vec<bool> = input.iter().by_vals().collect();
        let v = self.map.get(&key).cloned();
        if v.is_some() && self.next() % 4 == 0 {
            // pretend to have lost it
            self.losses.set(self.losses.get() + 1);
            return None;
        }
        v
    }
    fn insert(&mut self, input: &BitSlice, values: &([u8; 16], u8)) {
        let t = self.next();
        if t % 5 == 0 {
            self.losses.set(self.losses.get() + 1);
            return; // refuse to store
        }
        if t % 7 == 0 && !self.map.is_empty() {
            // evict something arbitrary (deterministically: the smallest key)
            let k = self.map.keys().min().cloned().unwrap();
            self.map.remove(&k);
            self.losses.set(self.losses.get() + 1);
        }
        let key: Vec<bool> = input.iter().by_vals().collect();
        self.map.entry(key).or_insert(*values);
    }
}

fn make_cache(kind: &CacheKind) -> Box<dyn IdpfCache> {
    match kind {
        CacheKind::No => Box::new(NoCache::new()),
        CacheKind::HashMap => Box::new(HashMapCache::new()),
        CacheKind::Ring(c) => Box::new(RingBufferCache::new(*c)),
        CacheKind::Tape(s) => Box::new(TapeCache { map: HashMap::new(), seed: *s, ctr: Cell::new(0), losses: Cell::new(0) }),
    }
}

fn enc_share<VI: IdpfValue, VL: IdpfValue>(s: &IdpfOutputShare<VI, VL>) -> (bool, Vec<u8>) {
    match s {
        IdpfOutputShare::Inner(v) => (false, v.get_encoded().unwrap_or_default()),
        IdpfOutputShare::Leaf(v) => (true, v.get_encoded().unwrap_or_default()),
    }
}

fn run_generic<VI: ValGen, VL: ValGen>(case: &Case, obs: &mut Obs) {
    let bits = case.input.len;
    let idpf = Idpf::<VI, VL>::new((), ());
    let inner: Vec<VI> = (0..bits - 1).map(|l| VI::make(case.value_seed, l as u64)).collect();
    let leaf = VL::make(case.value_seed, 99_999);
    let input = case.input.idpf();
    let (public, keys) = match guard(|| idpf.gen(&input, inner.clone(), leaf.clone(), &case.ctx.0, &case.nonce.0)) {
        Ok(Ok(x)) => x,
        Ok(Err(e)) => {
            obs.fail("gen-err", format!("Idpf::gen refused well-formed arguments: {e}"));
            return;
        }
        Err(p) => {
            obs.fail(format!("gen-{}", panic_sig(&p)), format!("Idpf::gen panicked: {p}"));
            return;
        }
    };
    let witness = || format!("public share {} keys {} {}", hex(&public.get_encoded().unwrap_or_default()), hex(keys[0].as_ref()), hex(keys[1].as_ref()));

    // reference evaluation without cache
    let eval_nc = |agg: usize, p: &IdpfInput| idpf.eval(agg, &public, &keys[agg], p, &case.ctx.0, &case.nonce.0, &mut NoCache::new());

    let n_eval = Cell::new(0u64);
    let check_prefix = |pfx: &Bits, obs: &mut Obs| -> bool {
        n_eval.set(n_eval.get() + 1);
        let p = pfx.idpf();
        let (s0, s1) = match guard(|| (eval_nc(0, &p), eval_nc(1, &p))) {
            Ok((Ok(a), Ok(b))) => (a, b),
            Ok((a, b)) => {
                obs.fail("eval-err", format!("Idpf::eval refused the in-range prefix {pfx:?}: {:?} / {:?}", a.err().map(|e| e.to_string()), b.err().map(|e| e.to_string())));
                return false;
            }
            Err(pn) => {
                obs.fail(format!("eval-{}", panic_sig(&pn)), format!("Idpf::eval panicked on prefix {pfx:?}: {pn}"));
                return false;
            }
        };
        let merged = match s0.merge(s1) {
            Ok(m) => m,
            Err(e) => {
                obs.fail("merge-err", format!("shares of the same prefix do not merge: {e}"));
                return false;
            }
        };
        let (is_leaf, got) = enc_share(&merged);
        let level = pfx.len - 1;
        let on_path = case.input.starts_with(pfx);
        if is_leaf != (pfx.len == bits) {
            obs.fail("level-kind", format!("prefix of length {} evaluated to a {} share", pfx.len, if is_leaf { "leaf" } else { "inner" }));
            return false;
        }
        let want = if is_leaf {
            if on_path {
                leaf.get_encoded().unwrap()
            } else {
                VL::zero(&()).get_encoded().unwrap()
            }
        } else if on_path {
            inner[level].get_encoded().unwrap()
        } else {
            VI::zero(&()).get_encoded().unwrap()
        };
        if got != want {
            obs.fail(if on_path { "on-path-value" } else { "off-path-nonzero" }, format!("prefix {pfx:?} ({}, level {level}): shares sum to {} expected {}; {}", if on_path { "on path" } else { "off path" }, hex(&got), hex(&want), witness()));
            return false;
        }
        true
    };

    if case.all_prefixes {
        obs.label("all-prefixes");
        for len in 1..=bits {
            for v in 0..(1u64 << len) {
                let bools: Vec<bool> = (0..len).map(|i| (v >> (len - 1 - i)) & 1 == 1).collect();
                if !check_prefix(&Bits::from_bools(&bools), obs) {
                    obs.evals = n_eval.get();
                    return;
                }
            }
        }
        obs.inner_nontrivial = n_eval.get();
    }

    // history with shared caches, differential against NoCache
    let hits = Cell::new(0u64);
    let inserts = Cell::new(0u64);
    let mut caches: Vec<Box<dyn IdpfCache>> = vec![make_cache(&case.cache), make_cache(&case.cache)];
    let mut off_path_deep = false;
    for (agg, pfx) in &case.history {
        if !check_prefix(pfx, obs) {
            break;
        }
        // a quarter of the evaluations hand over an input whose bit storage does not start at
        // bit 0 of its first word (public From<BitVec> conversion); equal as a value
        let sel = (*agg >> 1) as usize;
        let head = if sel % 4 == 3 { [1usize, 1, 1, 2, 2, 3, 7, 33][(sel / 4) % 8] } else { 0 };
        let agg = *agg as usize % 2;
        let p = pfx.idpf_head(head);
        if head != 0 {
            if p != pfx.idpf() {
                obs.fail("harness-unaligned-input", "harness: the unaligned input is not equal to the aligned one");
                break;
            }
            obs.label("unaligned-input");
        }
        let want = match eval_nc(agg, &p) {
            Ok(s) => enc_share(&s),
            Err(_) => continue,
        };
        let got = {
            let mut snoop = Snoop { inner: caches[agg].as_mut(), hits: &hits, inserts: &inserts };
            match guard(|| idpf.eval(agg, &public, &keys[agg], &p, &case.ctx.0, &case.nonce.0, &mut snoop)) {
                Ok(Ok(s)) => enc_share(&s),
                Ok(Err(e)) => {
                    obs.fail("cached-eval-err", format!("evaluation with cache {:?} failed on {pfx:?}: {e}", case.cache));
                    break;
                }
                Err(pn) => {
                    obs.fail(format!("cached-eval-{}", panic_sig(&pn)), format!("evaluation with cache {:?} panicked on {pfx:?}: {pn}", case.cache));
                    break;
                }
            }
        };
        if got != want {
            obs.fail("cache-not-transparent", format!("aggregator {agg}, prefix {pfx:?}: evaluation with cache {:?} after {} earlier evaluations gives {} but {} without a cache; {}", case.cache, n_eval.get() - 1, hex(&got.1), hex(&want.1), witness()));
            break;
        }
        if !case.input.starts_with(pfx) {
            // diverges at depth >= 1 ?
            let d = (0..pfx.len).find(|i| pfx.get(*i) != case.input.get(*i)).unwrap_or(0);
            if d >= 1 {
                off_path_deep = true;
            }
        }
    }
    obs.evals = n_eval.get().max(1);
    if hits.get() > 0 {
        obs.label("cache-hit");
    }
    let lossy = matches!(case.cache, CacheKind::Tape(_)) || matches!(case.cache, CacheKind::Ring(c) if (c as u64) < inserts.get());
    if hits.get() > 0 && lossy {
        obs.label("cache-hit-after-eviction-or-loss");
        obs.nt();
    }
    if off_path_deep {
        obs.label("off-path-diverging-at-depth>=1");
        obs.nt();
    }

    // refusals must not depend on the cache either: an over-long prefix that extends something
    // the (warm) cache holds is refused exactly as it is without a cache
    if !obs.failed() {
        for (agg, pfx) in case.history.iter().rev().take(4) {
            let agg = *agg as usize % 2;
            for extra in [1usize, 3] {
                let mut b = pfx.bools();
                let fill = b.last().copied().unwrap_or(false);
                while b.len() < bits + extra {
                    b.push(fill);
                }
                let long = IdpfInput::from_bools(&b);
                match guard(|| idpf.eval(agg, &public, &keys[agg], &long, &case.ctx.0, &case.nonce.0, caches[agg].as_mut())) {
                    Ok(Err(_)) => obs.label("over-long-prefix-refused-with-warm-cache"),
                    Ok(Ok(_)) => {
                        obs.fail("warm-cache-accepts-over-long-prefix", format!("aggregator {agg}: with cache {:?} (warm after the history) Idpf::eval accepted a prefix of {} bits for a {bits}-bit tree; without a cache it is refused", case.cache, b.len()));
                        return;
                    }
                    Err(pn) => {
                        obs.fail(format!("eval-over-long-{}", panic_sig(&pn)), format!("Idpf::eval panicked on an over-long prefix with a warm cache: {pn}"));
                        return;
                    }
                }
            }
        }
    }

    // error cases
    let empty = IdpfInput::from_bools(&[]);
    let long = IdpfInput::from_bools(&vec![false; bits + 1]);
    for (what, agg, p) in [("empty prefix", 0usize, &empty), ("over-long prefix", 1, &long), ("aggregator id 2", 2, &input)] {
        let key = &keys[agg.min(1)];
        match guard(|| idpf.eval(agg, &public, key, p, &case.ctx.0, &case.nonce.0, &mut NoCache::new())) {
            Ok(Err(_)) => {}
            Ok(Ok(_)) => {
                obs.fail("eval-accepts-bad-argument", format!("Idpf::eval accepted {what}"));
                return;
            }
            Err(pn) => {
                obs.fail(format!("eval-bad-argument-{}", panic_sig(&pn)), format!("Idpf::eval panicked on {what}: {pn}"));
                return;
            }
        }
    }
    if bits >= 2 {
        let a = eval_nc(0, &case.input.prefix(1).idpf());
        let b = eval_nc(1, &input);
        if let (Ok(a), Ok(b)) = (a, b) {
            if a.merge(b).is_ok() {
                obs.fail("merge-mixed-levels", "merging an inner share with a leaf share succeeded");
            }
        }
    }
}

fn history_strategy(bits: usize, input: Bits) -> BoxedStrategy<Vec<(u8, Bits)>> {
    prop::collection::vec((any::<u8>(), any::<u8>(), any::<u16>(), any::<u16>(), any::<u64>()), 1..=24)
        .prop_map(move |v| {
            let mut out: Vec<(u8, Bits)> = vec![];
            for (agg, src, l, pos, seed) in v {
                let len = 1 + idx16(l, bits);
                let mut b = input.bools()[..len].to_vec();
                match src % 6 {
                    0 | 1 => {}
                    2 | 3 => {
                        // sibling diverging at a generated depth
                        let i = idx16(pos, len);
                        b[i] = !b[i];
                    }
                    4 => {
                        // extend an earlier prefix of the history (exercises cache hits)
                        if let Some((_, p)) = out.get(idx16(pos, out.len().max(1))) {
                            let pb = p.bools();
                            let rnd = Bits::from_seed(seed | 2, len).bools();
                            b = (0..len).map(|i| if i < pb.len() { pb[i] } else { rnd[i] }).collect();
                        }
                    }
                    _ => b = Bits::from_seed(seed | 2, len).bools(),
                }
                out.push((agg, Bits::from_bools(&b)));
            }
            out
        })
        .boxed()
}

pub fn case_strategy(max_bits: usize) -> BoxedStrategy<Case> {
    let kind = prop_oneof![3 => Just(IdpfKind::Poplar), 1 => Just(IdpfKind::F64F255), 1 => Just(IdpfKind::F128F128), 1 => Just(IdpfKind::F32F64)];
    let cache = prop_oneof![
        1 => Just(CacheKind::No),
        2 => Just(CacheKind::HashMap),
        5 => prop_oneof![(0usize..=8).boxed(), Just(64usize).boxed()].prop_map(CacheKind::Ring),
        3 => any::<u64>().prop_map(CacheKind::Tape),
    ];
    let bits = prop_oneof![4 => 1usize..=8, 3 => 9usize..=40, 1 => 41usize..=max_bits.max(42)];
    (kind, bits, any::<u64>(), any::<u64>(), ctx_strategy(), prop_oneof![4 => Just(16usize), 1 => 0usize..=40], any::<u64>(), cache)
        .prop_flat_map(|(kind, bits, iseed, value_seed, ctx, nonce_len, nseed, cache)| {
            let input = Bits::from_seed(iseed, bits);
            let nonce = Hex(bytes_from(nseed, nonce_len));
            history_strategy(bits, input.clone()).prop_map(move |history| Case { kind, input: input.clone(), value_seed, ctx: ctx.clone(), nonce: nonce.clone(), cache: cache.clone(), history, all_prefixes: false })
        })
        .boxed()
}

impl Check for C06 {
    type Case = Case;
    const ID: &'static str = "C06";
    fn rule(&self) -> String {
        "(enumerated) every tree of ≤ 6 bits (≤ 8 thorough) for 3 inputs × 4 value-type pairs: every prefix of every length evaluated under both keys and summed, compared with the programmed value (on path) or zero (off path); (generated) trees up to 400 bits, histories of 1..24 evaluations (on-path prefixes, siblings diverging at a generated depth, extensions of earlier prefixes, random strings; a quarter of them handed over as bit vectors whose storage starts 1..33 bits into the first word) sharing one cache per aggregator among NoCache / HashMapCache / RingBufferCache(0..8,64) / a harness cache that refuses, forgets and evicts by a tape; every cached evaluation must equal the NoCache evaluation byte-for-byte; bad arguments ⇒ Err. Non-trivial = cache hit after an eviction/loss, or an off-path prefix diverging at depth ≥ 1; enumerated prefixes are distinct by construction, histories by case hash".into()
    }
    fn assumptions(&self) -> Vec<String> {
        vec!["Idpf::gen draws the two keys from the OS: correctness is perfect (every key pair), so verdicts do not depend on them; failures print the public share and keys as a witness".into()]
    }
    fn strategy(&self, tier: Tier) -> BoxedStrategy<Case> {
        case_strategy(tier.pick(120, 400))
    }
    fn num_cases(&self, tier: Tier) -> u64 {
        tier.pick(150_000, 3_000_000)
    }
    fn enumerate(&self, tier: Tier, shard: usize, nshards: usize, f: &mut dyn FnMut(Case) -> bool) {
        let maxb = tier.pick(6usize, 8);
        let mut i = 0usize;
        for kind in [IdpfKind::Poplar, IdpfKind::F64F255, IdpfKind::F128F128, IdpfKind::F32F64] {
            for bits in 1..=maxb {
                for (k, iseed) in [0u64, 1, 0xC0FFEE].iter().enumerate() {
                    i += 1;
                    if i % nshards != shard {
                        continue;
                    }
                    let input = Bits::from_seed(*iseed, bits);
                    // a history that walks all prefixes in order through a small ring cache as well
                    let mut history = vec![];
                    for len in 1..=bits {
                        for v in 0..(1u64 << len).min(16) {
                            let bools: Vec<bool> = (0..len).map(|b| (v >> (len - 1 - b)) & 1 == 1).collect();
                            history.push(((v % 2) as u8, Bits::from_bools(&bools)));
                        }
                    }
                    let c = Case { kind, input, value_seed: 1234 + k as u64, ctx: Hex(b"enum".to_vec()), nonce: Hex(vec![7; 16]), cache: CacheKind::Ring(2 + k), history, all_prefixes: true };
                    if !f(c) {
                        return;
                    }
                }
            }
        }
        if tier == Tier::Thorough && shard == 0 {
            let input = Bits::from_seed(77, 2000);
            let history = (0..40).map(|k| ((k % 2) as u8, input.prefix(50 * (k + 1)))).collect();
            f(Case { kind: IdpfKind::Poplar, input, value_seed: 5, ctx: Hex(b"long".to_vec()), nonce: Hex(vec![1; 16]), cache: CacheKind::Ring(3), history, all_prefixes: false });
        }
    }
    fn enumerated_space(&self, tier: Tier) -> Option<String> {
        Some(format!("4 value-type pairs × bit lengths 1..={} × 3 inputs × all 2^(bits+1)−2 prefixes", tier.pick(6, 8)))
    }
    fn run(&self, case: &Case) -> Outcome {
        let mut obs = Obs::new();
        obs.label(format!("values:{:?}", case.kind));
        obs.label(format!(
            "cache:{}",
            match &case.cache {
                CacheKind::No => "none".to_string(),
                CacheKind::HashMap => "hashmap".to_string(),
                CacheKind::Ring(c) => format!("ring({})", if *c > 8 { 64 } else { *c }),
                CacheKind::Tape(_) => "tape".to_string(),
            }
        ));
        match case.kind {
            IdpfKind::Poplar => run_generic::<Poplar1IdpfValue<Field64>, Poplar1IdpfValue<Field255>>(case, &mut obs),
            IdpfKind::F64F255 => run_generic::<Field64, Field255>(case, &mut obs),
            IdpfKind::F128F128 => run_generic::<Field128, Field128>(case, &mut obs),
            IdpfKind::F32F64 => run_generic::<FieldPrio2, Field64>(case, &mut obs),
        }
        obs.finish()
    }
}
