#![no_main]
//! libFuzzer target for C07/C08: the first two bytes select a (type, decoding parameter) from
//! the table in engine/src/fuzzsel.rs, the rest is handed to the decoder. Oracle inside the target:
//! no panic (libfuzzer-sys aborts on any panic), allocation bounded by -malloc_limit_mb, time by
//! -timeout, and accepted ⇒ re-encodes to the same bytes ∧ encoded_len exact ∧ round-trip equal.
use libfuzzer_sys::fuzz_target;

fuzz_target!(|data: &[u8]| {
    if let Err(e) = pvlib::fuzzsel::fuzz_one(data) {
        panic!("C07 oracle: {e}");
    }
});
