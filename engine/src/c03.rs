//! C03 — Poplar1 end-to-end: honest reports give exact prefix counts at every level.
//! Also hosts the Poplar1 wire driver reused by C04, C07, C13, C17, C18.

use crate::codec::Spec;
use crate::gen::{arr_from, bytes_from, ctx_strategy, seed_strategy};
use crate::harness::*;
use crate::p3::{aggregate_unshard_wire, combine_wire, init_wire, next_wire, shard_wire, step, AggInput, Fail, NextOut};
use crate::util::*;
use prio::codec::Encode;
use prio::idpf::IdpfInput;
use prio::vdaf::poplar1::{Poplar1, Poplar1AggregationParam};
use prio::vdaf::xof::{Xof, XofFixedKeyAes128, XofTurboShake128};
use prio::vdaf::Aggregator;
use proptest::prelude::*;
use serde::{Deserialize, Serialize};

pub struct C03;

#[derive(Clone, Copy, Debug, Serialize, Deserialize, PartialEq, Eq, Hash)]
pub enum PopXof {
    Turbo,
    Aes,
    Biased,
}

/// A bit string, MSB-first packed.
#[derive(Clone, Debug, Serialize, Deserialize, PartialEq, Eq, Hash, PartialOrd, Ord)]
pub struct Bits {
    pub len: usize,
    pub bytes: Hex,
}

impl Bits {
    pub fn from_bools(b: &[bool]) -> Self {
        let mut bytes = vec![0u8; b.len().div_ceil(8)];
        for (i, x) in b.iter().enumerate() {
            if *x {
                bytes[i / 8] |= 0x80 >> (i % 8);
            }
        }
        Bits { len: b.len(), bytes: Hex(bytes) }
    }
    pub fn get(&self, i: usize) -> bool {
        self.bytes.0[i / 8] & (0x80 >> (i % 8)) != 0
    }
    pub fn bools(&self) -> Vec<bool> {
        (0..self.len).map(|i| self.get(i)).collect()
    }
    pub fn prefix(&self, len: usize) -> Bits {
        Bits::from_bools(&self.bools()[..len])
    }
    pub fn starts_with(&self, p: &Bits) -> bool {
        p.len <= self.len && (0..p.len).all(|i| self.get(i) == p.get(i))
    }
    pub fn idpf(&self) -> IdpfInput {
        IdpfInput::from_bools(&self.bools())
    }
    /// The same input, built through the public `From<BitVec>` conversion from a bit vector whose
    /// storage starts `head` bits into its first word (what `bits[head..].to_bitvec()` yields).
    pub fn idpf_head(&self, head: usize) -> IdpfInput {
        self.idpf_head_fill(head, true)
    }
    /// `fill` = value of the `head` dead bits in front of the vector's storage.
    pub fn idpf_head_fill(&self, head: usize, fill: bool) -> IdpfInput {
        use bitvec::prelude::*;
        if head == 0 {
            return self.idpf();
        }
        let mut bv: BitVec<usize, Lsb0> = BitVec::new();
        for _ in 0..head {
            bv.push(fill);
        }
        for b in self.bools() {
            bv.push(b);
        }
        IdpfInput::from(bv[head..].to_bitvec())
    }
    /// pseudo-random bit string
    pub fn from_seed(seed: u64, len: usize) -> Self {
        let mut bytes = bytes_from(seed, len.div_ceil(8));
        if len % 8 != 0 {
            let l = bytes.len();
            bytes[l - 1] &= 0xFFu8 << (8 - len % 8);
        }
        Bits { len, bytes: Hex(bytes) }
    }
}

#[derive(Clone, Debug, Serialize, Deserialize)]
pub struct Report {
    pub input: Bits,
    pub nonce_seed: u64,
    pub rand_seed: u64,
}

#[derive(Clone, Debug, Default, Serialize, Deserialize)]
pub struct AggParamSpec {
    pub level: usize,
    /// sorted, distinct, each of length level+1
    pub prefixes: Vec<Bits>,
    /// storage offset of each candidate's bit vector (low 6 bits) and the value of the dead bits in
    /// front of it (bit 7); empty = derived from the prefix (`prefix_head`)
    #[serde(default)]
    pub heads: Vec<u8>,
}

#[derive(Clone, Debug, Serialize, Deserialize)]
pub struct Case {
    pub bits: usize,
    pub xof: PopXof,
    pub ctx: Hex,
    pub key_seed: u64,
    pub reports: Vec<Report>,
    /// an admissible sequence of aggregation parameters applied to the same reports
    pub chain: Vec<AggParamSpec>,
    /// run the iterative heavy-hitters procedure with this threshold on top (small trees only)
    pub heavy_hitters: Option<usize>,
}

impl Case {
    pub fn simple(bits: usize, aes: bool) -> Case {
        let input = Bits::from_seed(7, bits);
        Case {
            bits,
            xof: if aes { PopXof::Aes } else { PopXof::Turbo },
            ctx: Hex(b"ctx".to_vec()),
            key_seed: 5,
            reports: vec![Report { input: input.clone(), nonce_seed: 3, rand_seed: 4 }],
            chain: vec![AggParamSpec { level: bits - 1, prefixes: vec![input], heads: vec![] }],
            heavy_hitters: None,
        }
    }
}

#[derive(Clone, Copy, Debug, PartialEq, Eq)]
pub enum Size {
    Small,
    Medium,
    Deep,
}

#[derive(Clone, Debug)]
struct Raw {
    bits: usize,
    xof: u8,
    pool: Vec<u64>,
    picks: Vec<(u16, u64, u64)>,
    levels: Vec<u16>,
    sets: Vec<Vec<(u8, u16, u16, u64)>>,
    hh: Option<u8>,
}

fn build_case(raw: Raw, ctx: Hex, key_seed: u64) -> Case {
    let bits = raw.bits;
    let pool: Vec<Bits> = raw.pool.iter().map(|s| Bits::from_seed(*s, bits)).collect();
    let reports: Vec<Report> = raw.picks.iter().map(|(i, n, r)| Report { input: pool[idx16(*i, pool.len())].clone(), nonce_seed: *n, rand_seed: *r }).collect();
    // strictly increasing levels
    let mut levels: Vec<usize> = raw.levels.iter().map(|l| idx16(*l, bits)).collect();
    levels.sort();
    levels.dedup();
    if levels.is_empty() {
        levels.push(bits - 1);
    }
    let mut chain: Vec<AggParamSpec> = vec![];
    for (k, level) in levels.iter().enumerate() {
        let len = level + 1;
        let descr = &raw.sets[k % raw.sets.len()];
        let mut set: Vec<Bits> = vec![];
        for (src, a, b, seed) in descr {
            // a stem: for the first parameter any string; later an element of the previous set
            let (mut bools, on_path): (Vec<bool>, Option<&Bits>) = match chain.last() {
                None => (vec![], None),
                Some(prev) => {
                    let p = &prev.prefixes[idx16(*a, prev.prefixes.len())];
                    (p.bools(), pool.iter().find(|inp| inp.starts_with(p)))
                }
            };
            let start = bools.len();
            // extension bits: follow an input (on-path), diverge at a generated depth (sibling),
            // or random
            let follow: Option<&Bits> = match src % 4 {
                0 | 1 => on_path.or_else(|| if start == 0 { Some(&pool[idx16(*b, pool.len())]) } else { None }),
                2 => on_path.or_else(|| if start == 0 { Some(&pool[idx16(*b, pool.len())]) } else { None }),
                _ => None,
            };
            let rnd = Bits::from_seed(*seed | 2, len);
            for i in start..len {
                bools.push(match follow {
                    Some(f) => f.get(i),
                    None => rnd.get(i),
                });
            }
            if src % 4 == 2 && len > start {
                // sibling: flip one bit at a generated depth within the extension
                let pos = start + idx16(*b, len - start);
                bools[pos] = !bools[pos];
            }
            set.push(Bits::from_bools(&bools));
        }
        // Shift-coincident candidates (first parameter only, where nothing has to be extended):
        // for a candidate B stored `d` bits into its first word behind zero dead bits, the string
        // A = 0^d ‖ B[..len−d] stored at offset 0 occupies the same raw storage. A cache that keys on
        // raw storage instead of on the value would take one for the other.
        let mut shifted: Option<(Bits, Bits, u8)> = None;
        if chain.is_empty() && len >= 3 {
            if let Some((src, a, b, _)) = descr.first() {
                if src % 3 == 0 && !set.is_empty() {
                    let bsel = set[idx16(*a, set.len())].clone();
                    let d = 1 + idx16(*b, (len - 1).min(7));
                    let mut ab = vec![false; d];
                    ab.extend_from_slice(&bsel.bools()[..len - d]);
                    let asel = Bits::from_bools(&ab);
                    if asel != bsel {
                        set.push(asel.clone());
                        shifted = Some((asel, bsel, d as u8));
                    }
                }
            }
        }
        set.sort_by(|x, y| x.bools().cmp(&y.bools()));
        set.dedup();
        let heads = match &shifted {
            Some((a, b, d)) => set.iter().map(|x| if x == b { *d } else if x == a { 0 } else { 0 }).collect(),
            None => vec![],
        };
        chain.push(AggParamSpec { level: *level, prefixes: set, heads });
    }
    Case { bits, xof: [PopXof::Turbo, PopXof::Turbo, PopXof::Aes, PopXof::Biased][raw.xof as usize % 4], ctx, key_seed, reports, chain, heavy_hitters: raw.hh.filter(|_| bits <= 10).map(|t| 1 + (t as usize % 4)) }
}

pub fn case_strategy(size: Size) -> BoxedStrategy<Case> {
    let bits: BoxedStrategy<usize> = match size {
        Size::Small => prop_oneof![6 => 1usize..=16, 1 => 17usize..=64].boxed(),
        Size::Medium => prop_oneof![5 => 1usize..=16, 4 => 17usize..=300, 1 => 301usize..=2000].boxed(),
        Size::Deep => prop_oneof![
            2 => 21840usize..=21860,
            1 => Just(32768usize),
            1 => Just(65535usize),
            2 => Just(65536usize),
            1 => 21846usize..=65536,
        ]
        .boxed(),
    };
    let (max_reports, max_set, max_chain) = match size {
        Size::Small => (4usize, 8usize, 3usize),
        Size::Medium => (8, 40, 4),
        Size::Deep => (1, 3, 2),
    };
    let deep = size == Size::Deep;
    (
        (bits, any::<u8>(), prop::collection::vec(seed_strategy(), 1..=4)),
        prop::collection::vec((any::<u16>(), seed_strategy(), seed_strategy()), if deep { 1..=1 } else { 0..=max_reports }),
        prop::collection::vec(any::<u16>(), 1..=max_chain),
        prop::collection::vec(prop::collection::vec((any::<u8>(), any::<u16>(), any::<u16>(), any::<u64>()), 1..=max_set), 1..=max_chain),
        (prop::option::weighted(0.25, any::<u8>()), ctx_strategy(), seed_strategy()),
    )
        .prop_map(move |((bits, xof, pool), picks, mut levels, sets, (hh, ctx, key_seed))| {
            if deep {
                // make sure a level above 21845 is in the chain
                levels.push(u16::MAX);
                levels.push(u16::MAX - 1 - (key_seed as u16 % 20000));
            }
            build_case(Raw { bits, xof, pool, picks, levels, sets, hh }, ctx, key_seed)
        })
        .boxed()
}

// ------------------------------------------------------------------------------------------------
// Driver

/// Storage offset for candidate prefix `k` of a parameter: a pure function of the prefix, so that
/// replays are exact. About half of the candidates are built from bit vectors whose storage starts
/// inside a word (legal public API, `==` to the aligned input): whatever keys on the raw storage of
/// a prefix (the IDPF caches) must not see a difference.
pub fn prefix_head(b: &Bits, k: usize) -> usize {
    // (re-aligning an offset bit vector costs time linear in its length at every tree level; deep
    // candidates stay aligned so that the deep cases keep their cost)
    if b.len > 4096 {
        return 0;
    }
    let mut h = 0xcbf2_9ce4_8422_2325u64 ^ (k as u64).wrapping_mul(0x9e37_79b9_7f4a_7c15) ^ b.len as u64;
    for x in b.bytes.0.iter().take(16) {
        h = (h ^ *x as u64).wrapping_mul(0x0000_0100_0000_01b3);
    }
    h ^= h >> 29;
    if h & 1 == 0 {
        0
    } else {
        1 + ((h >> 8) % 63) as usize
    }
}

pub fn make_param(spec: &AggParamSpec) -> Result<Poplar1AggregationParam, String> {
    let explicit = spec.heads.len() == spec.prefixes.len();
    Poplar1AggregationParam::try_from_prefixes(
        spec.prefixes
            .iter()
            .enumerate()
            .map(|(k, b)| if explicit { b.idpf_head_fill((spec.heads[k] & 63) as usize, spec.heads[k] & 128 != 0) } else { b.idpf_head(prefix_head(b, k)) })
            .collect(),
    )
    .map_err(|e| format!("{e}"))
}

pub struct PopRun {
    /// per aggregation parameter: counts
    pub results: Vec<Vec<u64>>,
    /// every message seen on the wire, for C07
    pub messages: Vec<(Spec, Vec<u8>)>,
}

pub fn rand_len(seed_size: usize) -> usize {
    32 + 3 * seed_size
}

/// Verify one report for one aggregation parameter over the wire (two rounds).
pub fn verify_wire<P: Xof<K> + 'static, const K: usize>(
    vdaf: &Poplar1<P, K>,
    ap: &Poplar1AggregationParam,
    inputs: &[AggInput<K>],
    bits: usize,
    messages: Option<&mut Vec<(Spec, Vec<u8>)>>,
) -> Result<Vec<Vec<u8>>, Fail> {
    let mut sink = vec![];
    let mut states = vec![];
    let mut shares = vec![];
    for a in inputs {
        let o = init_wire(vdaf, ap, a)?;
        let sb = step("encode_verify_state", a.agg_id, || o.state.get_encoded())?;
        sink.push((Spec::PopState { bits, agg: a.agg_id }, sb));
        states.push(o.state);
        shares.push(o.verifier_share);
    }
    let mut outs: Vec<Option<Vec<u8>>> = vec![None; inputs.len()];
    for round in 0..3 {
        let dec_state = &states[(round + 1) % states.len()];
        let msg = combine_wire(vdaf, &inputs[0].ctx, ap, dec_state, &shares)?;
        // the continuation a ping-pong party would store: state ‖ message
        for (j, st) in states.iter().enumerate() {
            if K == 32 {
                let mut c = step("encode_verify_state", j, || st.get_encoded())?;
                c.extend_from_slice(&msg);
                sink.push((Spec::PopContinuation { bits, agg: j }, c));
            }
        }
        let mut next_states = vec![];
        let mut next_shares = vec![];
        for (j, st) in states.into_iter().enumerate() {
            match next_wire(vdaf, j, &inputs[j].ctx, ap, st, &msg)? {
                NextOut::Continue(s, b) => {
                    let sb = step("encode_verify_state", j, || s.get_encoded())?;
                    sink.push((Spec::PopState { bits, agg: j }, sb));
                    next_states.push(s);
                    next_shares.push(b);
                }
                NextOut::Finish(b) => {
                    sink.push((Spec::PopFieldVecByParam { bits, level: ap.level(), n: ap.prefixes().len() }, b.clone()));
                    outs[j] = Some(b)
                }
            }
        }
        if next_states.is_empty() {
            break;
        }
        if next_states.len() != inputs.len() {
            return Err(Fail::Err { stage: "rounds", agg: 0, msg: "aggregators did not finish in the same round".into() });
        }
        states = next_states;
        shares = next_shares;
    }
    if let Some(m) = messages {
        m.extend(sink);
    }
    outs.into_iter().map(|o| o.ok_or(Fail::Err { stage: "rounds", agg: 0, msg: "no output share after three rounds".into() })).collect()
}

pub fn run_generic<P: Xof<K> + 'static, const K: usize>(case: &Case, obs: &mut Obs, collect: bool) -> Option<PopRun> {
    let vdaf = Poplar1::<P, K>::new(case.bits);
    let key: [u8; K] = arr_from(case.key_seed);
    let mut messages = vec![];
    macro_rules! bail {
        ($f:expr) => {{
            let f: Fail = $f;
            let sig = match &f {
                Fail::Err { stage, .. } => format!("honest-{stage}-err"),
                Fail::Panic { stage, msg, .. } => format!("honest-{stage}-{}", panic_sig(msg)),
            };
            obs.fail(sig, format!("honest Poplar1 execution failed: {}", f.describe()));
            return None;
        }};
    }
    // shard every report once
    let mut sharded = vec![];
    for r in &case.reports {
        let nonce: [u8; 16] = arr_from(r.nonce_seed);
        let rand = bytes_from(r.rand_seed, rand_len(K));
        match shard_wire(&vdaf, &case.ctx.0, &r.input.idpf_head(prefix_head(&r.input, 977)), &nonce, &rand) {
            Ok(s) => {
                if collect {
                    messages.push((Spec::IdpfPublic { kind: crate::codec::IdpfKind::Poplar, bits: case.bits }, s.public_share.clone()));
                    for (j, is) in s.input_shares.iter().enumerate() {
                        messages.push((Spec::PopInput { bits: case.bits, aes: K == 16, agg: j }, is.clone()));
                    }
                }
                sharded.push((nonce, s))
            }
            Err(f) => bail!(f),
        }
    }
    let mut results = vec![];
    let mut prev_params: Vec<Poplar1AggregationParam> = vec![];
    for spec in &case.chain {
        let ap = match make_param(spec) {
            Ok(a) => a,
            Err(e) => {
                obs.fail("admissible-param-refused", format!("try_from_prefixes refused a sorted distinct prefix set at level {}: {e}", spec.level));
                return None;
            }
        };
        if collect {
            if let Ok(b) = ap.get_encoded() {
                messages.push((Spec::PopAggParam, b));
            }
        }
        if !<Poplar1<P, K> as Aggregator<K, 16>>::is_agg_param_valid(&ap, &prev_params) {
            obs.fail("admissible-chain-refused", format!("is_agg_param_valid refused an admissible chain at level {}", spec.level));
            return None;
        }
        let mut per_agg: Vec<Vec<Vec<u8>>> = vec![vec![], vec![]];
        for (nonce, s) in &sharded {
            let inputs: Vec<AggInput<K>> = (0..2).map(|j| AggInput { agg_id: j, verify_key: key, ctx: case.ctx.0.clone(), nonce: *nonce, public_share: s.public_share.clone(), input_share: s.input_shares[j].clone() }).collect();
            match verify_wire(&vdaf, &ap, &inputs, case.bits, if collect { Some(&mut messages) } else { None }) {
                Ok(outs) => {
                    for (j, o) in outs.into_iter().enumerate() {
                        per_agg[j].push(o);
                    }
                }
                Err(f) => bail!(f),
            }
        }
        match aggregate_unshard_wire(&vdaf, &ap, &per_agg, sharded.len()) {
            Ok(r) => results.push(r),
            Err(f) => bail!(f),
        }
        prev_params.push(ap);
    }
    Some(PopRun { results, messages })
}

pub fn run_case(case: &Case, obs: &mut Obs, collect: bool) -> Option<PopRun> {
    match case.xof {
        PopXof::Turbo => run_generic::<XofTurboShake128, 32>(case, obs, collect),
        PopXof::Aes => run_generic::<XofFixedKeyAes128, 16>(case, obs, collect),
        PopXof::Biased => run_generic::<BiasedXof, 32>(case, obs, collect),
    }
}

/// All wire messages of an honest run (for C07).
pub fn harvest(case: &Case) -> Vec<(Spec, Vec<u8>)> {
    let mut obs = Obs::new();
    let mut c = case.clone();
    c.heavy_hitters = None;
    match run_case(&c, &mut obs, true) {
        Some(r) => r.messages,
        None => vec![],
    }
}

fn reference_counts(case: &Case, spec: &AggParamSpec) -> Vec<u64> {
    spec.prefixes.iter().map(|p| case.reports.iter().filter(|r| r.input.starts_with(p)).count() as u64).collect()
}

fn heavy_hitters_check(case: &Case, threshold: usize, obs: &mut Obs) {
    // iterative procedure: start with both one-bit prefixes, extend those with count >= threshold
    let bits = case.bits;
    let mut cands: Vec<Bits> = vec![Bits::from_bools(&[false]), Bits::from_bools(&[true])];
    let mut found: Vec<Bits> = vec![];
    let mut chain_case = case.clone();
    chain_case.chain.clear();
    chain_case.heavy_hitters = None;
    for level in 0..bits {
        if cands.is_empty() {
            break;
        }
        chain_case.chain.push(AggParamSpec { level, prefixes: cands.clone(), heads: vec![] });
        // running the whole chain again at every step would be quadratic; the per-report state is
        // stateless here, so evaluating just the last parameter is equivalent to continuing
        let mut one = chain_case.clone();
        one.chain = vec![chain_case.chain.last().unwrap().clone()];
        let mut o2 = Obs::new();
        let r = match run_case(&one, &mut o2, false) {
            Some(r) => r,
            None => {
                if let Some((s, w)) = o2.violation {
                    obs.fail(format!("hh-{s}"), w);
                }
                return;
            }
        };
        let counts = &r.results[0];
        let mut next = vec![];
        for (p, c) in cands.iter().zip(counts) {
            if *c as usize >= threshold {
                if level == bits - 1 {
                    found.push(p.clone());
                } else {
                    let mut b = p.bools();
                    b.push(false);
                    next.push(Bits::from_bools(&b));
                    b.pop();
                    b.push(true);
                    next.push(Bits::from_bools(&b));
                }
            }
        }
        cands = next;
    }
    // brute force
    let mut want: Vec<Bits> = vec![];
    for r in &case.reports {
        let n = case.reports.iter().filter(|x| x.input == r.input).count();
        if n >= threshold && !want.contains(&r.input) {
            want.push(r.input.clone());
        }
    }
    want.sort_by(|x, y| x.bools().cmp(&y.bools()));
    found.sort_by(|x, y| x.bools().cmp(&y.bools()));
    if want != found {
        obs.fail("heavy-hitters-mismatch", format!("heavy hitters with threshold {threshold}: procedure returned {found:?}, brute force {want:?}"));
    }
    obs.label("heavy-hitters-run");
}

pub fn classify(case: &Case, obs: &mut Obs) {
    obs.label(format!("xof:{:?}", case.xof));
    let maxlevel = case.chain.iter().map(|c| c.level).max().unwrap_or(0);
    if case.chain.iter().any(|c| c.level == case.bits - 1) {
        obs.label("leaf-level");
    }
    if maxlevel > 21845 {
        obs.label("level>21845");
    }
    if case.chain.len() >= 3 {
        obs.label("chain>=3");
    }
    if case.chain.iter().any(|c| c.prefixes.len() > 8) {
        obs.label("prefixes>8");
    }
    if case.bits > 16 {
        obs.label("bits>16");
    }
    if case.bits > 300 {
        obs.label("bits>300");
    }
    let off_path = case.chain.iter().any(|c| c.prefixes.len() >= 2 && c.prefixes.iter().any(|p| !case.reports.iter().any(|r| r.input.starts_with(p))));
    if off_path {
        obs.label("off-path-candidate");
    }
    if !case.reports.is_empty() && off_path && maxlevel >= 1 {
        obs.nt();
    }
}

impl Check for C03 {
    type Case = Case;
    const ID: &'static str = "C03";
    fn rule(&self) -> String {
        "proptest-generated (bit length incl. deep 21840..65536, input pool, batch, admissible chain of aggregation parameters whose candidate sets mix on-path prefixes, siblings diverging at a generated depth and random strings, three XOF instantiations); every report is sharded deterministically and verified for every parameter of the chain over the wire (two rounds), aggregated and unsharded; oracle = plain count of inputs starting with each prefix; heavy hitters vs brute force for bits ≤ 10. Non-trivial = ≥1 report, ≥2 candidates with ≥1 off-path, level ≥ 1; distinct by case hash".into()
    }
    fn strategy(&self, tier: Tier) -> BoxedStrategy<Case> {
        match tier {
            Tier::Quick => prop_oneof![40 => case_strategy(Size::Small), 20 => case_strategy(Size::Medium), 1 => case_strategy(Size::Deep)].boxed(),
            Tier::Thorough => prop_oneof![30 => case_strategy(Size::Small), 30 => case_strategy(Size::Medium), 1 => case_strategy(Size::Deep)].boxed(),
        }
    }
    fn num_cases(&self, tier: Tier) -> u64 {
        tier.pick(6000, 60000)
    }
    fn builtin_corpus(&self) -> Vec<Case> {
        // the level-dependent fast-forward at and around the u16 overflow point (DESIGN.md §5 #4)
        let mut v = vec![];
        for (bits, level) in [(21850usize, 21845usize), (21850, 21846), (21850, 21848), (65536, 32768), (65536, 65534), (65536, 65535)] {
            let input = Bits::from_seed(11, bits);
            let mut sib = input.bools()[..=level].to_vec();
            let l = sib.len();
            sib[l - 1] = !sib[l - 1];
            let mut prefixes = vec![input.prefix(level + 1), Bits::from_bools(&sib)];
            prefixes.sort_by(|x, y| x.bools().cmp(&y.bools()));
            v.push(Case { bits, xof: PopXof::Turbo, ctx: Hex(b"deep".to_vec()), key_seed: 9, reports: vec![Report { input, nonce_seed: 21, rand_seed: 22 }], chain: vec![AggParamSpec { level, prefixes, heads: vec![] }], heavy_hitters: None });
        }
        v
    }
    fn run(&self, case: &Case) -> Outcome {
        let mut obs = Obs::new();
        classify(case, &mut obs);
        if let Some(r) = run_case(case, &mut obs, false) {
            for (spec, got) in case.chain.iter().zip(&r.results) {
                let want = reference_counts(case, spec);
                if *got != want {
                    obs.fail("prefix-count-mismatch", format!("level {}: unsharded counts {got:?} differ from the plain prefix counts {want:?}", spec.level));
                    break;
                }
            }
            if let Some(t) = case.heavy_hitters {
                if !obs.failed() && !case.reports.is_empty() {
                    heavy_hitters_check(case, t, &mut obs);
                }
            }
        }
        obs.finish()
    }
}
