#!/usr/bin/env python3
"""Regenerates /verif/MANIFEST.json from the table below (kept valid at all times)."""
import json, os, subprocess

CHECKS = {
    "C01": dict(
        technique="property-based testing (proptest): generated Prio3 instances/batches vs BigUint reference aggregate, wire round-trips at every step",
        text="Generated exploration of the parameter lattice (bounds at 2^k-1/2^k/2^k+1/p-2/p-1, dividing and non-dividing chunk lengths, 2..254 aggregators, 1..255 proofs, three XOFs incl. a rejection-heavy one) with batches of in-range measurements; every message goes through its encoding; oracle is an independent big-integer aggregate plus a per-report check that output shares sum to the truncated documented encoding. Finds parameter-dependent defects, does not prove absence.",
        note="Trusted: the harness's reference encoder/aggregate (written from the type documentation), proptest, splitmix expansion of seeds into randomness.",
        design="3/C01"),
}

ALL = ["C%02d" % i for i in range(1, 21)]

def main():
    root = "/verif"
    hooks_commits = []
    try:
        out = subprocess.run(["git", "-C", "/repo", "log", "--format=%H %s"], capture_output=True, text=True).stdout
        for line in out.splitlines():
            h, s = line.split(" ", 1)
            if s.startswith("verif-hooks:"):
                hooks_commits.append(h)
    except Exception:
        pass
    checks = []
    for pid in ALL:
        if pid not in CHECKS:
            continue
        c = CHECKS[pid]
        checks.append({
            "property_id": pid,
            "quick_cmd": f"./check {pid} quick",
            "thorough_cmd": f"./check {pid} thorough",
            "evidence_file": f"/verif/evidence/{pid}.json",
            "replay_cmd_template": "./check replay {path}",
            "engine": "pv" + (" + fuzz" if c.get("fuzz") else ""),
            "level_claimed": {"category": "exploration", "text": c["text"], "design_ref": "DESIGN.md section " + c["design"]},
            "level_note": c["note"],
            "technique": c["technique"],
        })
    na = [{"property_id": p, "reason": "check not built yet in this round (planned in DESIGN.md section 3; the technique applies)"} for p in ALL if p not in CHECKS]
    m = {
        "version": 1,
        "setup_cmd": "./check build",
        "hooks": {
            "guard": "cargo feature verif-hooks (crate prio)",
            "enable": "the engine depends on prio by path (/repo) with features experimental,multithreaded,test-util,verif-hooks",
            "baseline_off_cmd": "cd /repo && cargo test --workspace --no-fail-fast --offline",
            "source_commits": hooks_commits,
            "add_only": True,
        },
        "engines": [
            {"name": "pv", "path": "/verif/engine", "serves_properties": [c["property_id"] for c in checks],
             "kind_free_text": "Rust binary: proptest TestRunner driven from main on 16 seeded workers + exhaustive small-scope enumerators + corpus replay; shrinks failures to JSON replay files; supervised child process for aborts/hangs"},
        ],
        "checks": checks,
        "not_applicable": na,
        "notes": "Exit codes of ./check: 0 held, 1 violation (VIOLATION line), 2 inconclusive (harness does not build against the tree / watchdog). Known findings: /verif/known_findings.txt.",
    }
    with open(os.path.join(root, "MANIFEST.json"), "w") as f:
        json.dump(m, f, indent=1)
    print("MANIFEST.json written:", len(checks), "checks,", len(na), "not applicable")

if __name__ == "__main__":
    main()
