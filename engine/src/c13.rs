//! C13 — aggregation is independent of order, grouping and batching of shares.

use crate::c03::{make_param, AggParamSpec, Bits};
use crate::gen::*;
use crate::harness::*;
use crate::p3::*;
use crate::util::*;
use num_bigint::BigUint;
use prio::codec::{Encode, ParameterizedDecode};
use prio::field::{Field255, Field64, FieldPrio2};
use prio::vdaf::poplar1::Poplar1;
use prio::vdaf::prio2::Prio2;
use prio::vdaf::prio3::Prio3;
use prio::vdaf::xof::{Xof, XofTurboShake128};
use prio::vdaf::{Aggregatable, Aggregator, Collector};
use proptest::prelude::*;
use serde::{Deserialize, Serialize};

pub struct C13;

#[derive(Clone, Debug, Serialize, Deserialize)]
pub enum VdafSel {
    Prio3 { cfg: VdafCfg },
    Poplar1 { bits: usize, param: AggParamSpec },
    Prio2 { len: usize },
}

#[derive(Clone, Debug, Serialize, Deserialize)]
pub struct Case {
    pub vdaf: VdafSel,
    pub seed: u64,
    /// per output share: (batch selector, order key)
    pub shares: Vec<(u8, u16)>,
    pub n_batches: u8,
    /// merge plan: (left pick, right pick, swap operands)
    pub merges: Vec<(u16, u16, bool)>,
    /// how many of the shares are edge values (0, p−1) instead of random
    pub edge_every: u8,
}

pub fn case_strategy() -> BoxedStrategy<Case> {
    let mut lim = Limits::small();
    lim.max_input_len = 60;
    let vd = prop_oneof![
        5 => cfg_strategy(lim).prop_map(|cfg| VdafSel::Prio3 { cfg }),
        3 => (1usize..=10, any::<u16>(), 1usize..=5, any::<u64>(), any::<bool>()).prop_map(|(bits, level, n, seed, leaf)| {
            let level = if leaf { bits - 1 } else { idx16(level, bits) };
            let mut prefixes: Vec<Bits> = (0..n).map(|i| Bits::from_seed(seed.wrapping_add(i as u64) | 2, level + 1)).collect();
            prefixes.sort_by(|a, b| a.bools().cmp(&b.bools()));
            prefixes.dedup();
            VdafSel::Poplar1 { bits, param: AggParamSpec { level, prefixes, heads: vec![] } }
        }),
        1 => (1usize..=12).prop_map(|len| VdafSel::Prio2 { len }),
    ];
    (vd, any::<u64>(), prop::collection::vec((any::<u8>(), any::<u16>()), 1..=30), 1u8..=6, prop::collection::vec((any::<u16>(), any::<u16>(), any::<bool>()), 8), 0u8..5)
        .prop_map(|(vdaf, seed, shares, n_batches, merges, edge_every)| Case { vdaf, seed, shares, n_batches, merges, edge_every })
        .boxed()
}

fn share_bytes(seed: u64, idx: u64, count: usize, esize: usize, p: &BigUint, edge: u8) -> Vec<u8> {
    let mut out = vec![];
    for i in 0..count {
        let v = match (edge, (idx + i as u64) % 5) {
            (1, 0) => BigUint::from(0u32),
            (2, _) | (1, 1) => p - 1u32,
            (3, _) => BigUint::from(1u32),
            _ => BigUint::from_bytes_le(&expand(seed, idx * 100_003 + i as u64, esize + 8)) % p,
        };
        let mut b = v.to_bytes_le();
        b.resize(esize, 0);
        out.extend_from_slice(&b);
    }
    out
}

#[allow(clippy::too_many_arguments)]
fn algebra_core<V, const K: usize>(vdaf: &V, ap: &V::AggregationParam, count: usize, esize: usize, p: &BigUint, case: &Case, foreign: Option<(V::OutputShare, V::AggregateShare, &'static str)>, obs: &mut Obs, show: &dyn Fn(&V::AggregateResult) -> String)
where
    V: Aggregator<K, 16> + Collector,
{
    macro_rules! must {
        ($what:expr, $e:expr) => {
            match guard(|| $e) {
                Ok(Ok(v)) => v,
                Ok(Err(e)) => {
                    obs.fail(format!("{}-err", $what), format!("{} failed on well-formed shares: {e}", $what));
                    return;
                }
                Err(pn) => {
                    obs.fail(format!("{}-{}", $what, panic_sig(&pn)), format!("{} panicked: {pn}", $what));
                    return;
                }
            }
        };
    }
    let enc = |a: &V::AggregateShare| a.get_encoded().unwrap_or_default();
    let nb = case.n_batches.max(1) as usize;
    // two "aggregators" with their own share multisets
    let mut reference_shares = vec![];
    let mut batched_shares = vec![];
    let mut batch_count = 0;
    let mut tree_nontrivial = false;
    let mut empty_batch = false;
    for agg in 0..2u64 {
        let outs: Vec<V::OutputShare> = {
            let mut v = vec![];
            for (i, _) in case.shares.iter().enumerate() {
                let edge = if case.edge_every > 0 && i % (case.edge_every as usize + 1) == 0 { 1 + (i as u8 % 3) } else { 0 };
                let b = share_bytes(case.seed ^ (agg * 0x9999), i as u64, count, esize, p, edge);
                v.push(must!("decode_output_share", V::OutputShare::get_decoded_with_param(&(vdaf, ap), &b)));
            }
            v
        };
        // reference: a single left-to-right pass
        let mut reference = vdaf.aggregate_init(ap);
        for o in &outs {
            must!("accumulate", reference.accumulate(o));
        }
        // `aggregate` is the same thing
        let viaagg = must!("aggregate", vdaf.aggregate(ap, outs.iter().cloned()));
        if enc(&viaagg) != enc(&reference) {
            obs.fail("aggregate-vs-accumulate", "aggregate(all shares) differs from aggregate_init + accumulate in the same order");
            return;
        }
        // batches: partition, permute inside, aggregate each
        let mut batches: Vec<Vec<(u16, usize)>> = vec![vec![]; nb];
        for (i, (b, key)) in case.shares.iter().enumerate() {
            batches[*b as usize % nb].push((*key, i));
        }
        if batches.iter().any(|b| b.is_empty()) {
            empty_batch = true;
        }
        let mut aggs: Vec<V::AggregateShare> = vec![];
        for b in batches.iter_mut() {
            b.sort();
            let sh: Vec<V::OutputShare> = b.iter().map(|(_, i)| outs[*i].clone()).collect();
            aggs.push(must!("aggregate(batch)", vdaf.aggregate(ap, sh)));
        }
        batch_count = aggs.len();
        // merge tree
        let mut step = 0usize;
        while aggs.len() > 1 {
            let (l, r, swap) = case.merges[step % case.merges.len()];
            step += 1;
            let i = idx16(l, aggs.len());
            let mut j = idx16(r, aggs.len() - 1);
            if j >= i {
                j += 1;
            }
            if !(i == 0 && j == 1 && !swap) {
                tree_nontrivial = true;
            }
            let (a, b) = if swap { (j, i) } else { (i, j) };
            let rhs = aggs[b].clone();
            must!("merge", aggs[a].merge(&rhs));
            aggs.remove(b);
        }
        let batched = aggs.pop().unwrap();
        if enc(&batched) != enc(&reference) {
            obs.fail("batched-differs", format!("aggregating {} shares in {} batches with a generated merge tree gives {} but the single pass gives {}", outs.len(), nb, hex(&enc(&batched)), hex(&enc(&reference))));
            return;
        }
        // identity on both sides
        let mut left = vdaf.aggregate_init(ap);
        must!("merge(identity, x)", left.merge(&reference));
        let mut right = reference.clone();
        must!("merge(x, identity)", right.merge(&vdaf.aggregate_init(ap)));
        if enc(&left) != enc(&reference) || enc(&right) != enc(&reference) {
            obs.fail("identity", "the empty aggregate is not a two-sided identity of merge");
            return;
        }
        // From<OutputShare> then accumulate the rest == the pass
        if let Some(first) = outs.first() {
            let mut a = V::AggregateShare::from(first.clone());
            for o in &outs[1..] {
                must!("accumulate", a.accumulate(o));
            }
            if enc(&a) != enc(&reference) {
                obs.fail("from-output-share", "AggregateShare::from(first) + accumulate(rest) differs from the single pass");
                return;
            }
        }
        // commutativity of a single merge
        if outs.len() >= 2 {
            let x = V::AggregateShare::from(outs[0].clone());
            let y = V::AggregateShare::from(outs[1].clone());
            let mut xy = x.clone();
            must!("merge", xy.merge(&y));
            let mut yx = y.clone();
            must!("merge", yx.merge(&x));
            if enc(&xy) != enc(&yx) {
                obs.fail("merge-not-commutative", "x.merge(y) differs from y.merge(x)");
                return;
            }
        }
        reference_shares.push(reference);
        batched_shares.push(batched);
    }
    // unshard agrees
    let n = case.shares.len();
    let r1 = guard(|| vdaf.unshard(ap, reference_shares.clone(), n));
    let r2 = guard(|| vdaf.unshard(ap, batched_shares.clone(), n));
    match (r1, r2) {
        (Ok(Ok(a)), Ok(Ok(b))) => {
            if show(&a) != show(&b) {
                obs.fail("unshard-differs", format!("unshard of the batched aggregates {} differs from the single pass {}", show(&b), show(&a)));
                return;
            }
        }
        (Ok(Err(_)), Ok(Err(_))) => obs.label("unshard-refuses-arbitrary-aggregate"),
        (Err(p), _) | (_, Err(p)) => {
            obs.fail(format!("unshard-{}", panic_sig(&p)), format!("unshard panicked: {p}"));
            return;
        }
        _ => {
            obs.fail("unshard-inconsistent", "unshard accepts one of two equal aggregate share sets and refuses the other");
            return;
        }
    }
    // refusal of mismatched shares leaves the accumulator unchanged
    if let Some((fo, fa, what)) = foreign {
        // aggregate shares that agree with each other but not with the parameter are refused at
        // unshard too (one per aggregator)
        match guard(|| vdaf.unshard(ap, vec![fa.clone(); reference_shares.len()], n)) {
            Ok(Err(_)) => {}
            Ok(Ok(r)) => {
                obs.fail("unshard-accepts-mismatched-shares", format!("unshard accepted {what} aggregate shares that do not match the aggregation parameter and returned {}", show(&r)));
                return;
            }
            Err(pn) => {
                obs.fail(format!("unshard-mismatched-{}", panic_sig(&pn)), format!("unshard of {what} aggregate shares panicked: {pn}"));
                return;
            }
        }
        let acc = reference_shares[0].clone();
        let before = enc(&acc);
        let mut a1 = acc.clone();
        let mut a2 = acc.clone();
        let r1 = guard(|| a1.accumulate(&fo));
        let r2 = guard(|| a2.merge(&fa));
        match (r1, r2) {
            (Ok(Err(_)), Ok(Err(_))) => {
                if enc(&a1) != before || enc(&a2) != before {
                    obs.fail("refused-but-modified", format!("a refused {what} share modified the accumulator"));
                    return;
                }
                obs.label(format!("refusal:{what}"));
            }
            (Err(p), _) | (_, Err(p)) => {
                obs.fail(format!("mismatched-share-{}", panic_sig(&p)), format!("accumulating/merging a {what} share panicked: {p}"));
                return;
            }
            _ => {
                obs.fail("mismatched-share-accepted", format!("a {what} share was accepted by accumulate/merge"));
                return;
            }
        }
    }
    obs.label(format!("batches:{}", batch_count.min(6)));
    if empty_batch {
        obs.label("empty-batch");
    }
    if nb >= 2 && tree_nontrivial {
        obs.nt();
        obs.label("non-left-comb-merge-tree");
    }
}

struct P3Run<'a> {
    case: &'a Case,
    cfg: &'a VdafCfg,
    obs: &'a mut Obs,
}

impl<'a> VdafVisitor for P3Run<'a> {
    type Out = ();
    fn visit<T, P>(self, vdaf: Prio3<T, P, 32>, typ: T)
    where
        T: TypeBridge + 'static,
        T::Field: FieldBig,
        P: Xof<32> + 'static,
        // AggregateResult must be comparable
    {
        use prio::vdaf::{AggregateShare, OutputShare};
        let count = self.cfg.inst.output_len();
        let p = self.cfg.inst.field().modulus();
        let es = self.cfg.inst.field().size();
        // a share of another length: one element more
        let foreign_vec: Vec<T::Field> = (0..count + 1).map(|i| T::Field::from_u128(i as u128 + 1)).collect();
        let fo = OutputShare::from(foreign_vec.clone());
        let fa = AggregateShare::from(foreign_vec);
        let _ = typ;
        algebra_core(&vdaf, &(), count, es, &p, self.case, Some((fo, fa, "longer")), self.obs, &|r| format!("{:?}", T::result_big(r)));
    }
}

impl Check for C13 {
    type Case = Case;
    const ID: &'static str = "C13";
    fn rule(&self) -> String {
        "proptest-generated: VDAF ∈ {Prio3 instances, Poplar1 inner/leaf parameter, Prio2}; 1..30 output shares per aggregator obtained through the real decoder from generated canonical elements (random with 0 / 1 / p−1 edge values mixed in); a generated set partition into 1..6 batches (empty batches allowed), a generated order inside each batch, a generated binary merge tree with either operand order. Oracle: the batched/merged aggregate share equals, byte for byte, the single left-to-right pass; aggregate() = init + accumulate; aggregate_init is a two-sided identity; merge commutes; unshard agrees; a share of another length or of the other Poplar1 level kind is refused by accumulate, merge and unshard and leaves the accumulator's encoding unchanged. Every case also carries a refusal clause (a share of another length / level kind), so that alone does not count. Non-trivial = ≥ 2 batches with a merge tree that is not the left comb in generation order; distinct by case hash".into()
    }
    fn strategy(&self, _tier: Tier) -> BoxedStrategy<Case> {
        case_strategy()
    }
    fn num_cases(&self, tier: Tier) -> u64 {
        tier.pick(400_000, 8_000_000)
    }
    fn run(&self, case: &Case) -> Outcome {
        let mut obs = Obs::new();
        match &case.vdaf {
            VdafSel::Prio3 { cfg } => {
                obs.label(format!("vdaf:prio3:{}", cfg.inst.name()));
                if let Err(e) = with_vdaf(cfg, P3Run { case, cfg, obs: &mut obs }) {
                    obs.fail("constructor-refused-admissible-parameters", e);
                }
            }
            VdafSel::Poplar1 { bits, param } => {
                let leaf = param.level == bits - 1;
                obs.label(if leaf { "vdaf:poplar1:leaf" } else { "vdaf:poplar1:inner" });
                let vdaf = Poplar1::<XofTurboShake128, 32>::new(*bits);
                let ap = match make_param(param) {
                    Ok(a) => a,
                    Err(e) => {
                        obs.fail("param", e);
                        return obs.finish();
                    }
                };
                let n = param.prefixes.len();
                use prio::vdaf::poplar1::Poplar1FieldVec;
                // the other level kind with the same number of entries, and the same kind with another length
                let (fo, what) = if case.seed % 2 == 0 {
                    (if leaf { Poplar1FieldVec::Inner(vec![Field64::from_u128(1); n]) } else { Poplar1FieldVec::Leaf(vec![Field255::from_u128(1); n]) }, "other-level-kind")
                } else {
                    (if leaf { Poplar1FieldVec::Leaf(vec![Field255::from_u128(1); n + 1]) } else { Poplar1FieldVec::Inner(vec![Field64::from_u128(1); n + 1]) }, "longer")
                };
                let (es, p) = if leaf { (32, Field255::modulus_big()) } else { (8, Field64::modulus_big()) };
                algebra_core(&vdaf, &ap, n, es, &p, case, Some((fo.clone(), fo, what)), &mut obs, &|r: &Vec<u64>| format!("{r:?}"));
            }
            VdafSel::Prio2 { len } => {
                obs.label("vdaf:prio2");
                match Prio2::new(*len) {
                    Ok(vdaf) => {
                        use prio::vdaf::{AggregateShare, OutputShare};
                        let fv: Vec<FieldPrio2> = (0..len + 1).map(|i| FieldPrio2::from_u128(i as u128)).collect();
                        algebra_core(&vdaf, &(), *len, 4, &FieldPrio2::modulus_big(), case, Some((OutputShare::from(fv.clone()), AggregateShare::from(fv), "longer")), &mut obs, &|r: &Vec<u32>| format!("{r:?}"));
                    }
                    Err(e) => obs.fail("prio2-ctor", format!("{e}")),
                }
            }
        }
        obs.finish()
    }
}
