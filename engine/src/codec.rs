//! The table of decodable types (with their decoding parameters) shared by C07 and C08.

use crate::harness::guard;
use crate::p3::*;
use crate::util::*;
use prio::codec::{Decode, Encode, ParameterizedDecode};
use prio::field::{Field128, Field255, Field64, FieldElement, FieldPrio2};
use prio::idpf::IdpfPublicShare;
use prio::topology::ping_pong::{PingPongContinuation, PingPongMessage};
use prio::vdaf::poplar1::{Poplar1, Poplar1AggregationParam, Poplar1FieldVec, Poplar1IdpfValue, Poplar1InputShare, Poplar1VerifierMessage, Poplar1VerifierState};
use prio::vdaf::prio2::{Prio2, Prio2VerifierShare, Prio2VerifierState};
use prio::vdaf::prio3::{Prio3, Prio3InputShare, Prio3PublicShare, Prio3VerifierMessage, Prio3VerifierShare, Prio3VerifyState};
use prio::vdaf::xof::{Seed, Xof, XofFixedKeyAes128, XofTurboShake128};
use prio::vdaf::{AggregateShare, OutputShare, Share};
use serde::{Deserialize, Serialize};

/// Which Poplar1 verifier state is used as decoding parameter.
#[derive(Clone, Copy, Debug, Serialize, Deserialize, PartialEq, Eq, Hash)]
pub enum PopStateKind {
    InnerR1,
    InnerR2,
    LeafR1,
    LeafR2,
}

#[derive(Clone, Copy, Debug, Serialize, Deserialize, PartialEq, Eq, Hash)]
pub enum IdpfKind {
    /// (Poplar1IdpfValue<Field64>, Poplar1IdpfValue<Field255>)
    Poplar,
    /// (Field64, Field255)
    F64F255,
    /// (Field128, Field128)
    F128F128,
    /// (FieldPrio2, Field64)
    F32F64,
}

#[derive(Clone, Debug, Serialize, Deserialize, PartialEq, Eq, Hash)]
pub enum Spec {
    U8,
    U16,
    U32,
    U64,
    Unit,
    Seed16,
    Seed32,
    F32,
    F64,
    F128,
    F255,
    P3Public(VdafCfg),
    P3Input(VdafCfg, usize),
    P3VerifierShare(VdafCfg, usize),
    P3VerifierMessage(VdafCfg, usize),
    P3State(VdafCfg, usize),
    P3Output(VdafCfg),
    P3Agg(VdafCfg),
    /// PingPongContinuation<Prio3> decoded with (vdaf, agg_id)
    P3Continuation(VdafCfg, usize),
    IdpfPublic { kind: IdpfKind, bits: usize },
    PopInput { bits: usize, aes: bool, agg: usize },
    PopState { bits: usize, agg: usize },
    PopMessage(PopStateKind),
    PopFieldVecByState(PopStateKind),
    /// decoded with (poplar1, agg param): `level`, number of prefixes
    PopFieldVecByParam { bits: usize, level: usize, n: usize },
    PopAggParam,
    PopValue64,
    PopValue255,
    PopContinuation { bits: usize, agg: usize },
    Prio2Input { len: usize, agg: usize },
    Prio2VerifierShare,
    Prio2State { len: usize, agg: usize },
    Prio2Output { len: usize },
    Prio2Agg { len: usize },
    Prio2Continuation { len: usize, agg: usize },
    PingPongMessage,
}

impl Spec {
    pub fn family(&self) -> &'static str {
        match self {
            Spec::U8 | Spec::U16 | Spec::U32 | Spec::U64 | Spec::Unit => "int",
            Spec::Seed16 | Spec::Seed32 => "seed",
            Spec::F32 | Spec::F64 | Spec::F128 | Spec::F255 => "field",
            Spec::P3Public(_) => "prio3-public-share",
            Spec::P3Input(..) => "prio3-input-share",
            Spec::P3VerifierShare(..) => "prio3-verifier-share",
            Spec::P3VerifierMessage(..) => "prio3-verifier-message",
            Spec::P3State(..) => "prio3-verify-state",
            Spec::P3Output(_) => "prio3-output-share",
            Spec::P3Agg(_) => "prio3-aggregate-share",
            Spec::P3Continuation(..) => "pingpong-continuation-prio3",
            Spec::IdpfPublic { .. } => "idpf-public-share",
            Spec::PopInput { .. } => "poplar1-input-share",
            Spec::PopState { .. } => "poplar1-verifier-state",
            Spec::PopMessage(_) => "poplar1-verifier-message",
            Spec::PopFieldVecByState(_) => "poplar1-fieldvec-by-state",
            Spec::PopFieldVecByParam { .. } => "poplar1-fieldvec-by-param",
            Spec::PopAggParam => "poplar1-agg-param",
            Spec::PopValue64 | Spec::PopValue255 => "poplar1-idpf-value",
            Spec::PopContinuation { .. } => "pingpong-continuation-poplar1",
            Spec::Prio2Input { .. } => "prio2-input-share",
            Spec::Prio2VerifierShare => "prio2-verifier-share",
            Spec::Prio2State { .. } => "prio2-state",
            Spec::Prio2Output { .. } => "prio2-output-share",
            Spec::Prio2Agg { .. } => "prio2-aggregate-share",
            Spec::Prio2Continuation { .. } => "pingpong-continuation-prio2",
            Spec::PingPongMessage => "pingpong-message",
        }
    }
}

/// Result of probing a decoder with a byte string.
#[derive(Clone, Debug, Default)]
pub struct Rt {
    /// The decoder panicked (message) — never acceptable.
    pub panic: Option<String>,
    pub accepted: bool,
    pub err: Option<String>,
    /// Re-encoding of the accepted value.
    pub reenc: Option<Vec<u8>>,
    pub reenc_err: Option<String>,
    pub enc_len: Option<usize>,
    /// decode(reenc) == value (where equality is available; else equality of second re-encoding)
    pub roundtrip_equal: Option<bool>,
}

#[derive(Clone, Copy, PartialEq, Eq)]
pub enum Mode {
    DecodeOnly,
    Full,
}

pub type Prepared = Box<dyn Fn(&[u8], Mode) -> Rt + Send + Sync>;

fn probe<T, P>(param: &P, bytes: &[u8], mode: Mode, eq: Option<&dyn Fn(&T, &T) -> bool>) -> Rt
where
    T: ParameterizedDecode<P> + Encode,
{
    let mut rt = Rt::default();
    let dec = guard(|| T::get_decoded_with_param(param, bytes));
    let v = match dec {
        Err(p) => {
            rt.panic = Some(format!("decode: {p}"));
            return rt;
        }
        Ok(Err(e)) => {
            rt.err = Some(format!("{e}"));
            return rt;
        }
        Ok(Ok(v)) => v,
    };
    rt.accepted = true;
    if mode == Mode::DecodeOnly {
        return rt;
    }
    match guard(|| (v.get_encoded(), v.encoded_len())) {
        Err(p) => {
            rt.panic = Some(format!("encode: {p}"));
            return rt;
        }
        Ok((Err(e), l)) => {
            rt.reenc_err = Some(format!("{e}"));
            rt.enc_len = l;
        }
        Ok((Ok(b), l)) => {
            rt.enc_len = l;
            // decode the re-encoding and compare
            match guard(|| T::get_decoded_with_param(param, &b)) {
                Err(p) => rt.panic = Some(format!("decode of re-encoding: {p}")),
                Ok(Err(_)) => rt.roundtrip_equal = Some(false),
                Ok(Ok(v2)) => {
                    let same = match eq {
                        Some(f) => f(&v, &v2),
                        None => v2.get_encoded().ok().as_deref() == Some(&b[..]),
                    };
                    rt.roundtrip_equal = Some(same);
                }
            }
            rt.reenc = Some(b);
        }
    }
    rt
}

fn peq<T: PartialEq>() -> Option<&'static dyn Fn(&T, &T) -> bool> {
    Some(&|a: &T, b: &T| a == b)
}

fn plain<T>() -> Prepared
where
    T: Decode + Encode + PartialEq + 'static,
{
    Box::new(|b, m| probe::<T, ()>(&(), b, m, peq::<T>()))
}

pub fn pop_state_bytes(kind: PopStateKind) -> Vec<u8> {
    match kind {
        PopStateKind::InnerR1 => {
            let mut v = vec![0u8, 0];
            v.extend_from_slice(&[0; 16]);
            v.extend_from_slice(&[0, 0, 0, 0]);
            v
        }
        PopStateKind::InnerR2 => vec![0, 1, 0, 0, 0, 0],
        PopStateKind::LeafR1 => {
            let mut v = vec![1u8, 0];
            v.extend_from_slice(&[0; 64]);
            v.extend_from_slice(&[0, 0, 0, 0]);
            v
        }
        PopStateKind::LeafR2 => vec![1, 1, 0, 0, 0, 0],
    }
}

pub fn pop_state(kind: PopStateKind) -> Poplar1VerifierState {
    let vdaf = Poplar1::<XofTurboShake128, 32>::new(4);
    Poplar1VerifierState::get_decoded_with_param(&(&vdaf, 0usize), &pop_state_bytes(kind)).expect("harness: poplar state template")
}

/// A Prio3 verify state usable as a decoding parameter (contents irrelevant, shape matters).
pub fn p3_state_bytes(cfg: &VdafCfg, agg: usize) -> Vec<u8> {
    let mut n = if agg == 0 { cfg.inst.output_len() * cfg.inst.field().size() } else { 32 };
    if cfg.inst.has_joint_rand() {
        n += 32;
    }
    vec![0u8; n]
}

struct P3Prep {
    spec: Spec,
}

impl VdafVisitor for P3Prep {
    type Out = Prepared;
    fn visit<T, P>(self, vdaf: Prio3<T, P, 32>, _typ: T) -> Prepared
    where
        T: TypeBridge + 'static,
        T::Field: FieldBig,
        P: Xof<32> + 'static,
    {
        // SAFETY of Send/Sync: the instances are plain data (PhantomData of the XOF type).
        struct SS<X>(X);
        unsafe impl<X> Send for SS<X> {}
        unsafe impl<X> Sync for SS<X> {}
        let vd = SS(vdaf);
        match self.spec {
            Spec::P3Public(_) => Box::new(move |b, m| {
                let vd = &vd;
                probe::<Prio3PublicShare<32>, _>(&vd.0, b, m, peq())
            }),
            Spec::P3Input(_, agg) => Box::new(move |b, m| {
                let vd = &vd;
                probe::<Prio3InputShare<T::Field, 32>, _>(&(&vd.0, agg), b, m, peq())
            }),
            Spec::P3State(_, agg) => Box::new(move |b, m| {
                let vd = &vd;
                probe::<Prio3VerifyState<T::Field, 32>, _>(&(&vd.0, agg), b, m, peq())
            }),
            Spec::P3VerifierShare(ref cfg, agg) => {
                let st = Prio3VerifyState::<T::Field, 32>::get_decoded_with_param(&(&vd.0, agg), &p3_state_bytes(cfg, agg)).expect("harness: prio3 state template");
                let st = SS(st);
                Box::new(move |b, m| {
                    let st = &st;
                    probe::<Prio3VerifierShare<T::Field, 32>, _>(&st.0, b, m, peq())
                })
            }
            Spec::P3VerifierMessage(ref cfg, agg) => {
                let st = Prio3VerifyState::<T::Field, 32>::get_decoded_with_param(&(&vd.0, agg), &p3_state_bytes(cfg, agg)).expect("harness: prio3 state template");
                let st = SS(st);
                Box::new(move |b, m| {
                    let st = &st;
                    probe::<Prio3VerifierMessage<32>, _>(&st.0, b, m, peq())
                })
            }
            Spec::P3Output(_) => Box::new(move |b, m| {
                let vd = &vd;
                probe::<OutputShare<T::Field>, _>(&(&vd.0, &()), b, m, peq())
            }),
            Spec::P3Agg(_) => Box::new(move |b, m| {
                let vd = &vd;
                probe::<AggregateShare<T::Field>, _>(&(&vd.0, &()), b, m, peq())
            }),
            Spec::P3Continuation(_, agg) => Box::new(move |b, m| {
                let vd = &vd;
                probe::<PingPongContinuation<32, 16, Prio3<T, P, 32>>, _>(&(&vd.0, agg), b, m, peq())
            }),
            _ => unreachable!("harness: not a prio3 spec"),
        }
    }
}

/// Build the decoder closure for a spec. Err = the instance cannot be constructed.
pub fn prepare(spec: &Spec) -> Result<Prepared, String> {
    Ok(match spec.clone() {
        Spec::U8 => plain::<u8>(),
        Spec::U16 => plain::<u16>(),
        Spec::U32 => plain::<u32>(),
        Spec::U64 => plain::<u64>(),
        Spec::Unit => plain::<()>(),
        Spec::Seed16 => plain::<Seed<16>>(),
        Spec::Seed32 => plain::<Seed<32>>(),
        Spec::F32 => plain::<FieldPrio2>(),
        Spec::F64 => plain::<Field64>(),
        Spec::F128 => plain::<Field128>(),
        Spec::F255 => plain::<Field255>(),
        Spec::P3Public(ref cfg) | Spec::P3Input(ref cfg, _) | Spec::P3VerifierShare(ref cfg, _) | Spec::P3VerifierMessage(ref cfg, _) | Spec::P3State(ref cfg, _) | Spec::P3Output(ref cfg) | Spec::P3Agg(ref cfg) | Spec::P3Continuation(ref cfg, _) => {
            let cfg = cfg.clone();
            with_vdaf(&cfg, P3Prep { spec: spec.clone() })?
        }
        Spec::IdpfPublic { kind, bits } => match kind {
            IdpfKind::Poplar => Box::new(move |b, m| probe::<IdpfPublicShare<Poplar1IdpfValue<Field64>, Poplar1IdpfValue<Field255>>, usize>(&bits, b, m, peq())),
            IdpfKind::F64F255 => Box::new(move |b, m| probe::<IdpfPublicShare<Field64, Field255>, usize>(&bits, b, m, peq())),
            IdpfKind::F128F128 => Box::new(move |b, m| probe::<IdpfPublicShare<Field128, Field128>, usize>(&bits, b, m, peq())),
            IdpfKind::F32F64 => Box::new(move |b, m| probe::<IdpfPublicShare<FieldPrio2, Field64>, usize>(&bits, b, m, peq())),
        },
        Spec::PopInput { bits, aes, agg } => {
            if aes {
                Box::new(move |b, m| {
                    let vd = Poplar1::<XofFixedKeyAes128, 16>::new(bits);
                    probe::<Poplar1InputShare<16>, _>(&(&vd, agg), b, m, peq())
                })
            } else {
                Box::new(move |b, m| {
                    let vd = Poplar1::<XofTurboShake128, 32>::new(bits);
                    probe::<Poplar1InputShare<32>, _>(&(&vd, agg), b, m, peq())
                })
            }
        }
        Spec::PopState { bits, agg } => Box::new(move |b, m| {
            let vd = Poplar1::<XofTurboShake128, 32>::new(bits);
            probe::<Poplar1VerifierState, _>(&(&vd, agg), b, m, peq())
        }),
        Spec::PopMessage(k) => {
            let st = pop_state(k);
            Box::new(move |b, m| probe::<Poplar1VerifierMessage, _>(&st, b, m, peq()))
        }
        Spec::PopFieldVecByState(k) => {
            let st = pop_state(k);
            Box::new(move |b, m| probe::<Poplar1FieldVec, _>(&st, b, m, peq()))
        }
        Spec::PopFieldVecByParam { bits, level, n } => {
            // n distinct sorted prefixes of length level+1
            let ap = pop_agg_param(level, n)?;
            Box::new(move |b, m| {
                let vd = Poplar1::<XofTurboShake128, 32>::new(bits);
                probe::<Poplar1FieldVec, _>(&(&vd, &ap), b, m, peq())
            })
        }
        Spec::PopAggParam => plain::<Poplar1AggregationParam>(),
        Spec::PopValue64 => plain::<Poplar1IdpfValue<Field64>>(),
        Spec::PopValue255 => plain::<Poplar1IdpfValue<Field255>>(),
        Spec::PopContinuation { bits, agg } => Box::new(move |b, m| {
            let vd = Poplar1::<XofTurboShake128, 32>::new(bits);
            probe::<PingPongContinuation<32, 16, Poplar1<XofTurboShake128, 32>>, _>(&(&vd, agg), b, m, peq())
        }),
        Spec::Prio2Input { len, agg } => {
            let vd = Prio2::new(len).map_err(|e| format!("{e}"))?;
            Box::new(move |b, m| probe::<Share<FieldPrio2, 32>, _>(&(&vd, agg), b, m, peq()))
        }
        Spec::Prio2VerifierShare => {
            let vd = Prio2::new(1).map_err(|e| format!("{e}"))?;
            let st = Prio2VerifierState::get_decoded_with_param(&(&vd, 1usize), &[0u8; 32]).map_err(|e| format!("{e}"))?;
            Box::new(move |b, m| probe::<Prio2VerifierShare, _>(&st, b, m, None))
        }
        Spec::Prio2State { len, agg } => {
            let vd = Prio2::new(len).map_err(|e| format!("{e}"))?;
            Box::new(move |b, m| probe::<Prio2VerifierState, _>(&(&vd, agg), b, m, peq()))
        }
        Spec::Prio2Output { len } => {
            let vd = Prio2::new(len).map_err(|e| format!("{e}"))?;
            Box::new(move |b, m| probe::<OutputShare<FieldPrio2>, _>(&(&vd, &()), b, m, peq()))
        }
        Spec::Prio2Agg { len } => {
            let vd = Prio2::new(len).map_err(|e| format!("{e}"))?;
            Box::new(move |b, m| probe::<AggregateShare<FieldPrio2>, _>(&(&vd, &()), b, m, peq()))
        }
        Spec::Prio2Continuation { len, agg } => {
            let vd = Prio2::new(len).map_err(|e| format!("{e}"))?;
            Box::new(move |b, m| probe::<PingPongContinuation<32, 16, Prio2>, _>(&(&vd, agg), b, m, peq()))
        }
        Spec::PingPongMessage => plain::<PingPongMessage>(),
    })
}

/// `n` distinct sorted prefixes of `level+1` bits: the binary expansions of 0..n (n ≤ 2^(level+1)).
pub fn pop_agg_param(level: usize, n: usize) -> Result<Poplar1AggregationParam, String> {
    use prio::idpf::IdpfInput;
    let len = level + 1;
    if len < 64 && (n as u128) > (1u128 << len) {
        return Err("harness: too many prefixes for the level".into());
    }
    let prefixes: Vec<IdpfInput> = (0..n)
        .map(|i| {
            let bools: Vec<bool> = (0..len)
                .map(|b| {
                    let shift = len - 1 - b;
                    shift < 64 && (i >> shift) & 1 == 1
                })
                .collect();
            IdpfInput::from_bools(&bools)
        })
        .collect();
    Poplar1AggregationParam::try_from_prefixes(prefixes).map_err(|e| format!("{e}"))
}

// ------------------------------------------------------------------------------------------------
// Layouts: how a canonical encoding of each spec is put together (written from the wire format in
// the documentation / draft, not from the decoder).

#[derive(Clone, Copy, Debug, PartialEq, Eq)]
pub enum FieldId {
    F32,
    F64,
    F128,
    F255,
}

impl FieldId {
    pub fn size(self) -> usize {
        match self {
            FieldId::F32 => 4,
            FieldId::F64 => 8,
            FieldId::F128 => 16,
            FieldId::F255 => 32,
        }
    }
    pub fn modulus(self) -> num_bigint::BigUint {
        match self {
            FieldId::F32 => FieldPrio2::modulus_big(),
            FieldId::F64 => Field64::modulus_big(),
            FieldId::F128 => Field128::modulus_big(),
            FieldId::F255 => Field255::modulus_big(),
        }
    }
    pub fn of(k: FieldKind) -> Self {
        match k {
            FieldKind::F64 => FieldId::F64,
            FieldKind::F128 => FieldId::F128,
        }
    }
}

#[derive(Clone, Debug)]
pub enum Piece {
    /// n field elements
    Elems(FieldId, usize),
    /// n opaque bytes (any value is canonical)
    Opaque(usize),
    /// one tag byte from the valid set
    Tag(Vec<u8>),
    /// packed control bits: `bits` meaningful bits (LSB-first), padded with zeros to a byte
    PackedBits(usize),
}

impl Piece {
    pub fn len(&self) -> usize {
        match self {
            Piece::Elems(f, n) => f.size() * n,
            Piece::Opaque(n) => *n,
            Piece::Tag(_) => 1,
            Piece::PackedBits(b) => b.div_ceil(8),
        }
    }
}

/// Fixed layouts. None = variable layout handled by a custom generator.
pub fn layout(spec: &Spec) -> Option<Vec<Piece>> {
    use Piece::*;
    Some(match spec {
        Spec::U8 => vec![Opaque(1)],
        Spec::U16 => vec![Opaque(2)],
        Spec::U32 => vec![Opaque(4)],
        Spec::U64 => vec![Opaque(8)],
        Spec::Unit => vec![],
        Spec::Seed16 => vec![Opaque(16)],
        Spec::Seed32 => vec![Opaque(32)],
        Spec::F32 => vec![Elems(FieldId::F32, 1)],
        Spec::F64 => vec![Elems(FieldId::F64, 1)],
        Spec::F128 => vec![Elems(FieldId::F128, 1)],
        Spec::F255 => vec![Elems(FieldId::F255, 1)],
        Spec::P3Public(cfg) => {
            if cfg.inst.has_joint_rand() {
                vec![Opaque(32 * cfg.n_agg as usize)]
            } else {
                vec![]
            }
        }
        Spec::P3Input(cfg, agg) => {
            let f = FieldId::of(cfg.inst.field());
            let mut v = if *agg == 0 { vec![Elems(f, cfg.inst.input_len()), Elems(f, p3_proof_len(&cfg.inst) * cfg.n_proofs as usize)] } else { vec![Opaque(32)] };
            if cfg.inst.has_joint_rand() {
                v.push(Opaque(32));
            }
            v
        }
        Spec::P3VerifierShare(cfg, _) => {
            let f = FieldId::of(cfg.inst.field());
            let mut v = vec![Elems(f, p3_verifier_len(&cfg.inst) * cfg.n_proofs as usize)];
            if cfg.inst.has_joint_rand() {
                v.push(Opaque(32));
            }
            v
        }
        Spec::P3VerifierMessage(cfg, _) => {
            if cfg.inst.has_joint_rand() {
                vec![Opaque(32)]
            } else {
                vec![]
            }
        }
        Spec::P3State(cfg, agg) => {
            let f = FieldId::of(cfg.inst.field());
            let mut v = if *agg == 0 { vec![Elems(f, cfg.inst.output_len())] } else { vec![Opaque(32)] };
            if cfg.inst.has_joint_rand() {
                v.push(Opaque(32));
            }
            v
        }
        Spec::P3Continuation(cfg, agg) => {
            let mut v = layout(&Spec::P3State(cfg.clone(), *agg))?;
            v.extend(layout(&Spec::P3VerifierMessage(cfg.clone(), *agg))?);
            v
        }
        Spec::P3Output(cfg) | Spec::P3Agg(cfg) => vec![Elems(FieldId::of(cfg.inst.field()), cfg.inst.output_len())],
        Spec::IdpfPublic { kind, bits } => {
            let (fi, ni, fl, nl) = match kind {
                IdpfKind::Poplar => (FieldId::F64, 2, FieldId::F255, 2),
                IdpfKind::F64F255 => (FieldId::F64, 1, FieldId::F255, 1),
                IdpfKind::F128F128 => (FieldId::F128, 1, FieldId::F128, 1),
                IdpfKind::F32F64 => (FieldId::F32, 1, FieldId::F64, 1),
            };
            vec![PackedBits(2 * bits), Opaque(16 * bits), Elems(fi, ni * (bits - 1)), Elems(fl, nl)]
        }
        Spec::PopInput { bits, aes, .. } => vec![Opaque(16), Opaque(if *aes { 16 } else { 32 }), Elems(FieldId::F64, 2 * (bits - 1)), Elems(FieldId::F255, 2)],
        Spec::PopMessage(k) => match k {
            PopStateKind::InnerR1 => vec![Elems(FieldId::F64, 3)],
            PopStateKind::LeafR1 => vec![Elems(FieldId::F255, 3)],
            _ => vec![],
        },
        Spec::PopFieldVecByState(k) => match k {
            PopStateKind::InnerR1 => vec![Elems(FieldId::F64, 3)],
            PopStateKind::LeafR1 => vec![Elems(FieldId::F255, 3)],
            PopStateKind::InnerR2 => vec![Elems(FieldId::F64, 1)],
            PopStateKind::LeafR2 => vec![Elems(FieldId::F255, 1)],
        },
        Spec::PopFieldVecByParam { bits, level, n } => {
            if *level == bits - 1 {
                vec![Elems(FieldId::F255, *n)]
            } else {
                vec![Elems(FieldId::F64, *n)]
            }
        }
        Spec::PopValue64 => vec![Elems(FieldId::F64, 2)],
        Spec::PopValue255 => vec![Elems(FieldId::F255, 2)],
        Spec::Prio2Input { len, agg } => {
            if *agg == 0 {
                vec![Elems(FieldId::F32, prio2_proof_length(*len))]
            } else {
                vec![Opaque(32)]
            }
        }
        Spec::Prio2VerifierShare => vec![Elems(FieldId::F32, 3)],
        Spec::Prio2State { len, agg } => {
            if *agg == 0 {
                vec![Elems(FieldId::F32, *len)]
            } else {
                vec![Opaque(32)]
            }
        }
        Spec::Prio2Continuation { len, agg } => layout(&Spec::Prio2State { len: *len, agg: *agg })?,
        Spec::Prio2Output { len } | Spec::Prio2Agg { len } => vec![Elems(FieldId::F32, *len)],
        Spec::PopState { .. } | Spec::PopAggParam | Spec::PopContinuation { .. } | Spec::PingPongMessage => return None,
    })
}

/// Prio2 share length (documented packing: data, f(0), g(0), h(0), n odd points of h).
pub fn prio2_proof_length(dimension: usize) -> usize {
    let n = (dimension + 1).next_power_of_two();
    dimension + 3 + n
}

/// FLP proof length from the draft's formula: per gadget arity + degree*(P-1)+1, P = next pow2 of
/// calls+1.
pub fn p3_proof_len(inst: &Inst) -> usize {
    let calls = inst.gadget_calls();
    let p = (1 + calls).next_power_of_two();
    let arity = match inst.chunk() {
        Some(c) => 2 * c,
        None => match inst {
            Inst::Count { .. } => 2,
            _ => 1,
        },
    };
    // all shipped gadgets have degree 2
    let calls_p = match inst {
        Inst::Count { .. } => 2,
        _ => p,
    };
    arity + 2 * (calls_p - 1) + 1
}

pub fn p3_verifier_len(inst: &Inst) -> usize {
    let arity = match inst.chunk() {
        Some(c) => 2 * c,
        None => match inst {
            Inst::Count { .. } => 2,
            _ => 1,
        },
    };
    2 + arity
}

pub fn nominal_len(spec: &Spec) -> usize {
    match layout(spec) {
        Some(l) => l.iter().map(|p| p.len()).sum(),
        None => match spec {
            Spec::PopState { .. } | Spec::PopContinuation { .. } => 80,
            _ => 16,
        },
    }
}

pub fn elem_bytes(f: FieldId, v: &num_bigint::BigUint) -> Vec<u8> {
    let mut b = v.to_bytes_le();
    b.resize(f.size(), 0);
    b.truncate(f.size());
    b
}

pub fn _unused<F: FieldElement>() {}

// ------------------------------------------------------------------------------------------------
// The fixed (type, parameter) table of the exhaustive enumerations and of the fuzz targets

fn fixed_cfgs() -> Vec<VdafCfg> {
    let mk = |inst: Inst, n_agg: u8, n_proofs: u8| VdafCfg { alg_id: inst.default_alg_id(), inst, xof: XofKind::Turbo, n_agg, n_proofs };
    vec![
        mk(Inst::Count { f: FieldKind::F64 }, 2, 1),
        mk(Inst::Sum { f: FieldKind::F64, max: U(255) }, 3, 1),
        mk(Inst::Histogram { f: FieldKind::F128, len: 5, chunk: 2, mt: false }, 2, 1),
        mk(Inst::SumVec { f: FieldKind::F64, max: U(3), len: 3, chunk: 4, mt: false }, 2, 2),
        mk(Inst::Multihot { f: FieldKind::F128, len: 4, max_weight: 2, chunk: 3, mt: false }, 4, 1),
    ]
}

/// The fixed (type, parameter) list for the exhaustive short-string enumeration.
pub fn fixed_specs() -> Vec<Spec> {
    let mut v = vec![Spec::U8, Spec::U16, Spec::U32, Spec::U64, Spec::Unit, Spec::Seed16, Spec::Seed32, Spec::F32, Spec::F64, Spec::F128, Spec::F255, Spec::PopValue64, Spec::PopValue255, Spec::Prio2VerifierShare, Spec::PopAggParam, Spec::PingPongMessage];
    for c in fixed_cfgs() {
        v.push(Spec::P3Public(c.clone()));
        for agg in [0usize, 1] {
            v.push(Spec::P3Input(c.clone(), agg));
            v.push(Spec::P3VerifierShare(c.clone(), agg));
            v.push(Spec::P3VerifierMessage(c.clone(), agg));
            v.push(Spec::P3State(c.clone(), agg));
            v.push(Spec::P3Continuation(c.clone(), agg));
        }
        v.push(Spec::P3Output(c.clone()));
        v.push(Spec::P3Agg(c));
    }
    for kind in [IdpfKind::Poplar, IdpfKind::F64F255, IdpfKind::F128F128, IdpfKind::F32F64] {
        for bits in [1usize, 2, 4, 5] {
            v.push(Spec::IdpfPublic { kind, bits });
        }
    }
    for bits in [1usize, 2, 9] {
        for agg in [0usize, 1] {
            v.push(Spec::PopInput { bits, aes: false, agg });
            v.push(Spec::PopInput { bits, aes: true, agg });
            v.push(Spec::PopState { bits, agg });
            v.push(Spec::PopContinuation { bits, agg });
        }
    }
    for k in [PopStateKind::InnerR1, PopStateKind::InnerR2, PopStateKind::LeafR1, PopStateKind::LeafR2] {
        v.push(Spec::PopMessage(k));
        v.push(Spec::PopFieldVecByState(k));
    }
    v.push(Spec::PopFieldVecByParam { bits: 4, level: 1, n: 3 });
    v.push(Spec::PopFieldVecByParam { bits: 4, level: 3, n: 2 });
    for len in [1usize, 3, 7] {
        for agg in [0usize, 1] {
            v.push(Spec::Prio2Input { len, agg });
            v.push(Spec::Prio2State { len, agg });
            v.push(Spec::Prio2Continuation { len, agg });
        }
        v.push(Spec::Prio2Output { len });
        v.push(Spec::Prio2Agg { len });
    }
    v
}

