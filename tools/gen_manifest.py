#!/usr/bin/env python3
"""Regenerates /verif/MANIFEST.json from the table below (kept valid at all times)."""
import json, os, subprocess

CHECKS = {
    "C01": dict(
        technique="property-based testing (proptest): generated Prio3 instances/batches vs BigUint reference aggregate, wire round-trips at every step",
        text="Generated exploration of the parameter lattice (bounds at 2^k-1/2^k/2^k+1/p-2/p-1, dividing and non-dividing chunk lengths, 2..254 aggregators, 1..255 proofs, three XOFs incl. a rejection-heavy one) with batches of in-range measurements; every message goes through its encoding; oracle is an independent big-integer aggregate plus a per-report check that output shares sum to the truncated documented encoding. Finds parameter-dependent defects, does not prove absence.",
        note="Trusted: the harness's reference encoder/aggregate (written from the type documentation), proptest, splitmix expansion of seeds into randomness.",
        design="3/C01"),
    "C02": dict(
        technique="property-based testing (proptest) with a malicious-client device (real sharding code run on arbitrary vectors through a Type wrapper) and wire-level tampering; independent validity predicate as oracle; exhaustive sweep over message positions",
        text="Invalid/near-miss vectors are sharded by the library's own sharding code with an honest proof and must be rejected by the real instance (4 independent verification keys before an acceptance is reported); honest reports are altered on the wire (bit flips, field-element deltas, truncation, swaps, drops, duplicates, foreign messages) and a single effective alteration must make some aggregator fail, several alterations may only complete with valid (and, if no input share was touched, honest) outputs; every element position of leader share and verifier shares is swept for fixed configurations, as is every pair of verifier-share elements altered by (d, +-d) as one alteration, and (for histogram / multihot / L1-bound) every ordered pair of positions of the encoded vector edited so that the type's linear relation still holds and only the bit checks can refuse.",
        note="Trusted: the validity predicate written from the type documentation; soundness error <= 2^-50 per attempt.",
        design="3/C02"),
    "C04": dict(
        technique="differential testing against a BigUint reference implementation of the Poplar1 sketch fed by independent IDPF evaluation (proptest-generated altered and attacker-built reports)",
        text="Honest reports with 1..3 region-addressed alterations (correction words, keys, correlated-randomness seeds and shares, sketch messages in transit) and clients assembled from public pieces with arbitrary programmed values / authenticators / A,B shares; the library's verifier shares, verdict and output shares must equal a BigUint transcription of the sketch computed from the wire bytes and an independent NoCache evaluation of both IDPF keys; accepted => candidates' summed output is zero or one-hot with value 1.",
        note="Trusted: the reference sketch algebra; field sampling from XOF streams is the library's (checked by C11); Idpf::gen keys come from the OS (verdict independent).",
        design="3/C04"),
    "C05": dict(
        technique="property-based testing (proptest) clause by clause + exhaustive enumeration of wire-domain roots of unity",
        text="Generated circuits/parameters over both fields, valid (incl. alternative valid encodings) and invalid inputs, degenerate and uniform randomness, root-of-unity and next-order-root query points, 1..8 shares: lengths, wrong-length refusal, completeness for every non-root randomness, soundness with re-tests, share linearity, root refusal (two-sided), every verifier element and element pair (d, +-d) altered => refused by decide, every proof position altered => rejected; all roots of all domains up to 2^6 (2^10 thorough) enumerated.",
        note="Trusted: documented encoding/validity model; soundness error of the FLP.",
        design="3/C05"),
    "C06": dict(
        technique="exhaustive small-tree enumeration + property-based evaluation histories (proptest) with differential oracle (cached vs NoCache) and programmed-value oracle",
        text="All prefixes of all trees <= 6 bits (8 thorough) for 4 value-type pairs; generated histories on trees up to 400 bits sharing NoCache/HashMapCache/RingBufferCache(0..8,64)/a lossy harness cache; every evaluation must equal the programmed value/zero and the NoCache result; inputs with non-zero storage offsets; over-long prefixes refused with a warm cache exactly as without one.",
        note="Trusted: Idpf::gen keys from the OS (verdict independent by perfect correctness).",
        design="3/C06"),
    "C09": dict(
        technique="exhaustive enumeration of the generic field arithmetic at 8/16-bit word sizes (hook H1) + lattice/random differential testing of the deployed fields against BigUint",
        text="Complete operand spaces of add/sub/mul/neg/inv/montgomery/residue/pow for 5 eight-bit and 8 sixteen-bit instantiations of the same generic single-word and split-word code (16-bit binary ops: lattice+1024 rows x all y in quick, all rows in thorough); deployed fields: limb-boundary lattice x lattice for raw Montgomery words and for the public operators, conversions, encodings, equality/hash consistency, generator and roots of exact order; Field255 at 51-bit limb boundaries.",
        note="Trusted: u64/BigUint arithmetic. The step from scaled-down to deployed widths rests on the code being the same generic functions. The split-word instantiations respect the implicit precondition p*(p+2^(W/2)) < 2^(2W) of the split-word reduction (65521 would not; the deployed 128-bit prime does).",
        design="3/C09"),
    "C10": dict(
        technique="exhaustive basis-vector certification of the linear transforms (hook H2) + property-based comparison of the Lagrange routines with naive O(n^2) references",
        text="ntt/ntt_set_s/ntt_inv on every basis vector, every matrix entry, for all sizes <= 2^8 (2^11 thorough) over 3 fields; sizes up to 2^20 sampled; batched Lagrange evaluation at every node, extension for every partial length, doubling, multiplication, range-check polynomials, root powers; size/capacity errors.",
        note="Trusted: field arithmetic (C09), naive interpolation/Horner.",
        design="3/C10"),
    "C11": dict(
        technique="metamorphic property-based testing (chunking independence) + tape-driven differential testing of field sampling against the specified rule, with enumerated rejection positions",
        text="Seed/tag/binder splittings and read-size sequences for three XOFs (and the reusable fixed-key entry point); tape RNG with per-chunk classes (canonical, rejected, p-1, p, p+1, high bits) and a rejection at every slot of the 32-element buffer incl. runs straddling refills, four fields; IdpfValue::generate incl. read pattern.",
        note="Trusted: the sampling rule transcribed from the draft; byte values of the XOFs themselves are pinned by the repository's test vectors, not re-derived.",
        design="3/C11"),
    "C12": dict(
        technique="model-based testing of delivery/restart histories (generated + exhaustive to a depth bound) against a reference broadcast execution, with an instrumented order- and round-sensitive VDAF",
        text="Histories over deliver/replay/re-type/corrupt-to-undecodable/reload/evaluate-again for an instrumented VDAF with 1..6 rounds, Prio3, Poplar1, Prio2 and the dummy VDAF; exact message sequence and payloads, aggregator order at the combiner, outputs equal to broadcast execution, every fault refused, reloaded continuations identical; all 6^5 (6^7) histories for R<=3.",
        note="Trusted: the harness's reference execution. Decodable content changes of messages are C02/C04's subject.",
        design="3/C12"),
    "C13": dict(
        technique="property-based testing (proptest): generated partitions, permutations and merge trees vs a single left-to-right pass",
        text="1..30 arbitrary output shares per aggregator (through the real decoders) for Prio3 types, Poplar1 inner/leaf and Prio2; byte equality of aggregate shares under any batching/merge order, identity, commutativity, unshard agreement, refusal of mismatched length/level kind by accumulate, merge and unshard, leaving the accumulator unchanged.",
        note="Trusted: nothing beyond the harness itself (pure metamorphic relation).",
        design="3/C13"),
    "C14": dict(
        technique="differential property-based testing: multithreaded vs serial instantiation under per-case rayon pools (size, load and repetition varied)",
        text="Byte equality of every message and the result between ParallelSumMultithreaded and ParallelSum instantiations of SumVec/Histogram/MultihotCountVec for pool sizes 1..32, repetitions and contention; gadget-level eval_poly/eval equality with dirty output buffers.",
        note="Schedules are perturbed, not enumerated (stated limit of the technique); a violation requires a structural defect.",
        design="3/C14"),
    "C15": dict(
        technique="tape-driven differential testing against a transcription of CKS20 Algorithms 1-3, exact per-layer enumeration with interceptors (hook H3), path-tree enumeration with exact rational weights against closed-form probabilities, tape-RNG testing of the uniform layer, intercepted noise application",
        text="(1) real samplers vs a transcription of the reference algorithms on common tapes of uniform draws (outputs and requested ranges identical, random source only used through uniform draws); (2) each layer's conditional law enumerated exactly (Bernoulli threshold for all/edge draws, Bernoulli-exp arguments, parity and the rational Taylor identity, factorisation for gamma > 1, geometric, Laplace -0 retry, Gaussian proposal scale and acceptance identity); (3) path trees with exact weights vs closed forms bracketed by rational exp bounds (Laplace end-to-end coarse, Bernoulli-exp and Gaussian acceptance fine); (4) uniform big integers for every bound <= 1024 and every candidate, large bounds vs the word model; (5) add_noise_to_agg_share: one draw per coordinate, scale = sensitivity/epsilon exactly, floor-mod projection incl. negative and oversized noise.",
        note="Trusted: the transcription of CKS20 and the closed forms; the end-to-end Laplace tree has a residual of about 2^-8, exactness rests on layers 1-2. Probability laws are established by exact enumeration of conditional structure, not by sampling.",
        design="3/C15"),
    "C17": dict(
        technique="metamorphic property-based testing (byte-wise comparison of shares across two measurements under identical randomness)",
        text="Prio3 (all types, 1..254 aggregators, three XOFs; sharding randomness uniform, all-zero, all-ones or one 16/32-byte block repeated): helper input shares and the leader blind byte-identical, leader measurement-share difference equals the difference of the documented encodings, only the leader's joint-randomness part differs; Poplar1 (two XOF instantiations): both input shares byte-identical, only the public share differs.",
        note="Trusted: the documented encoding model.",
        design="3/C17"),
    "C18": dict(
        technique="property-based testing with generated mismatch plans and a plan-derived oracle (must fail / must finish with honest output shares)",
        text="Honest reports (Prio3 with and without joint randomness, Poplar1 inner and leaf) verified under plans that deviate context, nonce, verification key, aggregator identifier and algorithm identifier at one, several or all aggregators (identifiers include values aliasing the true one mod 2^8/2^16/2^32; half of the cases first run an honest step on the same instances, since the API is stateless by contract); every aggregator combines under its own view; acceptance under a mismatch reported only after 4 independent keys; the two documented exceptions (consistent key substitution; consistent nonce substitution without joint randomness) must finish with honest outputs.",
        note="Trusted: the plan-to-expectation table in engine/src/c18.rs; XOFs are collision resistant.",
        design="3/C18"),
    "C19": dict(
        technique="property-based testing with a reference model of the query-point derivation (differential on verify_init vs verify_init_with_query_rand) and constructed nonces; position sweep",
        text="Lengths around powers of two, 0/1 vectors accepted and summed exactly, non-binary vectors and altered leader elements / helper seed / verifier shares rejected (4 keys), every leader-share element swept for small lengths; the aggregators' query point equals the documented HMAC-SHA256/AES-CTR derivation with interpolation nodes skipped, exercised with nonces whose first candidate is a node (found by search; at power-of-two lengths a primitive 2n-th root, which distinguishes the node count from one computed from the length alone).",
        note="Trusted: the documented derivation of the query point; sharding randomness comes from the OS (verdict independent up to soundness error).",
        design="3/C19"),
    "C20": dict(
        technique="exhaustive small-scope enumeration against a reference predicate + property-based structured histories",
        text="All 273 parameters over <= 3 bits against all histories of length <= 2 (quick: a third of the length-2 ones), all 54 240 prefix lists of <= 4 prefixes of <= 3 bits through constructor, encoder (vs the specified layout) and decoder with non-canonical variants; generated histories up to 140 bits with level gaps from 1 to beyond a machine word and the classic wrong-rule twists; stray padding bits in final and non-final prefixes; single-use rule for Prio3/Prio2.",
        note="Trusted: the reference predicate written from the property text.",
        design="3/C20"),
    "C16": dict(
        technique="table-driven property-based testing of every Result-returning entry point with extreme-value argument lattices and per-class expectations (MustErr / MustOk+exercise / NoPanic)",
        text="Constructors of all Prio3/FLP types, Prio2, Poplar1 operations with 0 bits, measurements out of range / wrong length (exact accept-reject oracle), randomness length, aggregator ids, swapped roles, directly constructed malformed shares (incl. leader-form shares under helper ids and vice versa), share counts (incl. 255, 256, 256+n, 512+n, 65536+n), foreign states/messages, aggregate/unshard/decode_result lengths, IDPF gen, prefix lists, DP constructors and noise application; constructed extremes are used end to end within a memory budget.",
        note="Trusted: the documented-domain table in engine/src/c16.rs. Ten defects found by this check were repaired (known_findings.txt).",
        design="3/C16"),
    "C03": dict(
        technique="property-based testing (proptest): generated Poplar1 batches and admissible aggregation-parameter chains (incl. deep levels > 21845) vs plain prefix counts; heavy hitters vs brute force",
        text="Generated exploration over bit lengths 1..65536 (deep levels in every run), candidate sets mixing on-path prefixes, siblings and random strings, candidates and inputs built from bit vectors with non-zero storage offsets (incl. shift-coincident pairs), chains of parameters on the same reports, three XOF instantiations incl. a rejection-heavy one; two-round verification over the wire; oracle is a plain count of inputs starting with each prefix and brute-force heavy hitters.",
        note="Trusted: the harness's bit-string model and prefix counting; deterministic sharding through TestVectorClient::shard_with_random.",
        design="3/C03"),
    "C07": dict(
        technique="grammar-based generation + round-trip/canonicity oracle (proptest), honest-message harvest from protocol runs; thorough tier adds a coverage-guided libFuzzer campaign with the same oracle inside the target",
        text="A per-type grammar written from the wire format builds canonical encodings and strings with exactly one known defect for ~30 message types × generated decoding parameters; two-sided oracle (canonical ⇒ accepted, defective ⇒ rejected) plus accepted ⇒ re-encodes to the same bytes ∧ encoded_len exact ∧ decode(encode(v)) = v; every message of honest Prio3/Poplar1/Prio2 runs is probed too.",
        note="Trusted: the layouts in engine/src/codec.rs (independent of the decoders). The thorough command additionally builds the cargo-fuzz target /verif/fuzz/fuzz_targets/codec.rs against /repo and runs it (3M executions on 16 jobs, seeds = the grammar's canonical encodings); an artifact is turned into a JSON replay by the in-process oracle; the quick command replays /verif/fuzz/regress/*.",
        design="3/C07"),
    "C08": dict(
        technique="exhaustive short-string enumeration + header-extreme enumeration + mutation-based generation under panic/allocation/CPU-time/watchdog monitors; thorough tier adds a coverage-guided libFuzzer campaign (ASan, -malloc_limit_mb, -timeout)",
        text="All byte strings of length ≤ 2 for a fixed table of 100+ (type, parameter) pairs and all 3-byte strings for header-bearing types are enumerated; header fields at extreme values × body lengths enumerated; generated near-valid encodings with all single-bit flips and truncations, splices and random strings, near-valid strings decoded under aggregator identifiers that do not exist (2..2^63+1, incl. values aliasing a real one mod 2^8/2^16/2^32), well-formed and almost well-formed encodings of 40 KB - 1.6 MB, the public vector helpers of prio::codec with the cursor anywhere incl. past the end; overflow checks on; thread CPU time bounded by 2 s + 20 us per byte (confirmed by repetition); per-thread allocation accounting with a bound proportional to input length and parameter size; supervised child process turns aborts/hangs into reproducible violations.",
        note="Trusted: the counting allocator; the allocation bound constants (64 KiB + 64·len + 8·nominal size). The thorough command additionally runs the cargo-fuzz target /verif/fuzz/fuzz_targets/codec.rs (panics abort, 256 MiB malloc limit, 10 s timeout).",
        design="3/C08"),
}

ALL = ["C%02d" % i for i in range(1, 21)]

def main():
    root = "/verif"
    hooks_commits = []
    try:
        out = subprocess.run(["git", "-C", "/repo", "log", "--format=%H %s"], capture_output=True, text=True).stdout
        for line in out.splitlines():
            h, s = line.split(" ", 1)
            if s.startswith("verif-hooks:"):
                hooks_commits.append(h)
    except Exception:
        pass
    checks = []
    for pid in ALL:
        if pid not in CHECKS:
            continue
        c = CHECKS[pid]
        checks.append({
            "property_id": pid,
            "quick_cmd": f"./check {pid} quick",
            "thorough_cmd": f"./check {pid} thorough",
            "evidence_file": f"/verif/evidence/{pid}.json",
            "replay_cmd_template": "./check replay {path}",
            "engine": "pv" + (" + fuzz" if c.get("fuzz") else ""),
            "level_claimed": {"category": "exploration", "text": c["text"], "design_ref": "DESIGN.md section " + c["design"]},
            "level_note": c["note"],
            "technique": c["technique"],
        })
    na = [{"property_id": p, "reason": "check not built yet in this round (planned in DESIGN.md section 3; the technique applies)"} for p in ALL if p not in CHECKS]
    m = {
        "version": 1,
        "setup_cmd": "./check build",
        "hooks": {
            "guard": "cargo feature verif-hooks (crate prio)",
            "enable": "the engine depends on prio by path (/repo) with features experimental,multithreaded,test-util,verif-hooks",
            "baseline_off_cmd": "cd /repo && cargo test --workspace --no-fail-fast --offline",
            "source_commits": hooks_commits,
            "add_only": True,
        },
        "engines": [
            {"name": "pv", "path": "/verif/engine", "serves_properties": [c["property_id"] for c in checks],
             "kind_free_text": "Rust binary: proptest TestRunner driven from main on 16 seeded workers + exhaustive small-scope enumerators + corpus replay; shrinks failures to JSON replay files; supervised child process for aborts/hangs"},
            {"name": "fuzz", "path": "/verif/fuzz", "serves_properties": ["C07", "C08"],
             "kind_free_text": "cargo-fuzz / libFuzzer target (ASan) over (type selector, bytes) with the C07/C08 oracle inside the target; thorough tier only; artifacts are converted to pv replay files"},
        ],
        "checks": checks,
        "not_applicable": na,
        "notes": "Exit codes of ./check: 0 held, 1 violation (VIOLATION line), 2 inconclusive (harness does not build against the tree / watchdog). Known findings: /verif/known_findings.txt.",
    }
    with open(os.path.join(root, "MANIFEST.json"), "w") as f:
        json.dump(m, f, indent=1)
    print("MANIFEST.json written:", len(checks), "checks,", len(na), "not applicable")

if __name__ == "__main__":
    main()
